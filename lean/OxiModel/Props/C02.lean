import OxiModel.Chunks
import OxiModel.LosslessProofs
/-
  C02 — output is always a well-formed PNG/APNG (container level).
-/
namespace OxiModel.C02
open OxiModel

/-! ### big-endian fields round-trip -/

theorem readBE_be32 (n : Nat) (h : n < 2 ^ 32) : readBE (be32 n) = n := by
  simp only [be32, readBE, List.foldl_cons, List.foldl_nil, UInt8.toNat_ofNat']
  omega

theorem readBE_be16 (n : Nat) (h : n < 2 ^ 16) : readBE (be16 n) = n := by
  simp only [be16, readBE, List.foldl_cons, List.foldl_nil, UInt8.toNat_ofNat']
  omega

theorem be32_length (n : Nat) : (be32 n).length = 4 := rfl

/-! ### a strict reader for what `write_png_block` writes -/

/-- read one chunk, checking length and CRC (PNG specification, chunk layout) -/
def readBlock (b : Bytes) : Option (Chunk × Bytes) :=
  if b.length < 12 then none else
  let len := readBE (b.take 4)
  if b.length < 12 + len then none else
  let name := (b.drop 4).take 4
  let data := (b.drop 8).take len
  let crc := readBE ((b.drop (8 + len)).take 4)
  if Spec.crc32 (name ++ data) ≠ crc then none else some (⟨name, data⟩, b.drop (12 + len))

def readBlocks : Nat → Bytes → Option (List Chunk)
  | 0, _ => none
  | fuel + 1, b =>
    if b.isEmpty then some [] else
    match readBlock b with
    | none => none
    | some (c, rest) => (readBlocks fuel rest).map (c :: ·)

def readFile (b : Bytes) : Option (List Chunk) :=
  if b.take 8 = pngSignature then readBlocks (b.length + 1) (b.drop 8) else none

/-- a chunk the serialiser can frame: 4-byte name, payload below 2^32 bytes -/
def Framable (c : Chunk) : Prop := c.name.length = 4 ∧ c.data.length < 2 ^ 32

theorem crc32_lt (bs : Bytes) : Spec.crc32 bs < 2 ^ 32 := by
  unfold Spec.crc32
  exact UInt32.toNat_lt _

theorem writeBlock_length (c : Chunk) (h : Framable c) : (writeBlock c).length = 12 + c.data.length := by
  simp [writeBlock, be32_length, h.1]; omega

/-- **Every chunk written is read back exactly**: length field, name, payload and CRC are
    consistent by construction. -/
theorem readBlock_writeBlock (c : Chunk) (rest : Bytes) (h : Framable c) :
    readBlock (writeBlock c ++ rest) = some (c, rest) := by
  obtain ⟨hn, hd⟩ := h
  -- the written block, right-associated
  have hW : writeBlock c ++ rest =
      be32 c.data.length ++ (c.name ++ (c.data ++ (be32 (Spec.crc32 (c.name ++ c.data)) ++ rest))) := by
    simp [writeBlock, List.append_assoc]
  have hlen : (writeBlock c ++ rest).length = 12 + c.data.length + rest.length := by
    rw [hW]; simp [be32_length, hn]; omega
  have d4 : (writeBlock c ++ rest).drop 4 = c.name ++ (c.data ++ (be32 (Spec.crc32 (c.name ++ c.data)) ++ rest)) := by
    rw [hW]; exact List.drop_left' (be32_length _)
  have d8 : (writeBlock c ++ rest).drop 8 = c.data ++ (be32 (Spec.crc32 (c.name ++ c.data)) ++ rest) := by
    have : (8 : Nat) = 4 + 4 := rfl
    rw [this, ← List.drop_drop, d4]; exact List.drop_left' hn
  have d8l : (writeBlock c ++ rest).drop (8 + c.data.length) = be32 (Spec.crc32 (c.name ++ c.data)) ++ rest := by
    rw [← List.drop_drop, d8]; exact List.drop_left' rfl
  have d12 : (writeBlock c ++ rest).drop (12 + c.data.length) = rest := by
    have : 12 + c.data.length = 8 + c.data.length + 4 := by omega
    rw [this, ← List.drop_drop, d8l]; exact List.drop_left' (be32_length _)
  unfold readBlock
  have h1 : ¬ (writeBlock c ++ rest).length < 12 := by omega
  simp only [h1, if_false]
  have htake4 : (writeBlock c ++ rest).take 4 = be32 c.data.length := by
    rw [hW]; exact List.take_left' (be32_length _)
  rw [htake4, readBE_be32 _ hd]
  have h2 : ¬ (writeBlock c ++ rest).length < 12 + c.data.length := by omega
  simp only [h2, if_false]
  have hname : ((writeBlock c ++ rest).drop 4).take 4 = c.name := by
    rw [d4]; exact List.take_left' hn
  have hdata : ((writeBlock c ++ rest).drop 8).take c.data.length = c.data := by
    rw [d8]; exact List.take_left' rfl
  have hcrc : ((writeBlock c ++ rest).drop (8 + c.data.length)).take 4 = be32 (Spec.crc32 (c.name ++ c.data)) := by
    rw [d8l]; exact List.take_left' (be32_length _)
  rw [hname, hdata, hcrc, readBE_be32 _ (crc32_lt _), d12]
  simp

/-- **Framing round trip**: the byte stream written for any list of framable chunks parses back,
    strictly (lengths and CRCs checked), to exactly that list. -/
theorem framing_roundtrip (cs : List Chunk) (h : ∀ c ∈ cs, Framable c) :
    ∀ fuel, cs.length < fuel → readBlocks fuel (cs.flatMap writeBlock) = some cs := by
  induction cs with
  | nil => intro fuel hf; cases fuel with
    | zero => omega
    | succ n => simp [readBlocks]
  | cons c cs ih =>
    intro fuel hf
    cases fuel with
    | zero => omega
    | succ n =>
      simp only [List.flatMap_cons, readBlocks]
      have hne : (writeBlock c ++ cs.flatMap writeBlock).isEmpty = false := by
        simp [writeBlock, be32]
      rw [hne]
      simp only [Bool.false_eq_true, if_false]
      rw [readBlock_writeBlock c _ (h c List.mem_cons_self)]
      simp only
      rw [ih (fun d hd => h d (List.mem_cons_of_mem _ hd)) n (by simp at hf; omega)]
      rfl

/-! ### structure of what `output` writes -/

theorem output_starts_with_signature (p : PngData) : (output p).take 8 = pngSignature := by
  simp [output, writeChunks, pngSignature]

theorem first_is_ihdr (p : PngData) : (outputChunks p).head? = some ⟨nm "IHDR", ihdrBytes p.raw.ihdr⟩ := by
  simp [outputChunks]

theorem last_is_iend (p : PngData) : (outputChunks p).getLast? = some ⟨nm "IEND", []⟩ := by
  simp only [outputChunks]
  exact List.getLast?_concat

theorem keyChunks_names (ct : ColorType) : ∀ c ∈ keyChunks ct, c.name = nm "PLTE" ∨ c.name = nm "tRNS" := by
  intro c hc
  cases ct with
  | gray t => cases t <;> simp [keyChunks] at hc; right; rw [hc]
  | rgb t =>
    cases t with
    | none => simp [keyChunks] at hc
    | some k => obtain ⟨r, g, b⟩ := k; simp [keyChunks] at hc; right; rw [hc]
  | indexed pal =>
    simp only [keyChunks] at hc
    split at hc <;> simp at hc
    · rcases hc with rfl | rfl
      · left; rfl
      · right; rfl
    · left; rw [hc]
  | grayAlpha => simp [keyChunks] at hc
  | rgba => simp [keyChunks] at hc

theorem frameChunks_names (fs : List Frame) (s : Nat) :
    ∀ c ∈ frameChunks fs s, c.name = nm "fcTL" ∨ c.name = nm "fdAT" := by
  induction fs generalizing s with
  | nil => simp [frameChunks]
  | cons f fs ih =>
    intro c hc
    simp only [frameChunks, List.mem_cons] at hc
    rcases hc with rfl | rfl | hc
    · left; rfl
    · right; rfl
    · exact ih (s + 2) c hc

/-- **Exactly one IDAT chunk**, holding the compressed stream (hence one consecutive IDAT run). -/
theorem exactly_one_idat (p : PngData) :
    (outputChunks p).filter (fun c => c.name = nm "IDAT") = [⟨nm "IDAT", p.idat⟩] := by
  have e1 : nm "IHDR" ≠ nm "IDAT" := by decide
  have e2 : nm "IEND" ≠ nm "IDAT" := by decide
  have e3 : nm "PLTE" ≠ nm "IDAT" := by decide
  have e4 : nm "tRNS" ≠ nm "IDAT" := by decide
  have e5 : nm "fcTL" ≠ nm "IDAT" := by decide
  have e6 : nm "fdAT" ≠ nm "IDAT" := by decide
  simp only [outputChunks, splitAtIdat, List.filter_append, List.filter_cons, List.filter_nil, e1, e2,
    decide_false, decide_true, Bool.false_eq_true, if_false, if_true, List.nil_append, List.append_nil]
  have hpre : ∀ (l : List Chunk) (q : Chunk → Bool),
      ((l.takeWhile fun c => c.name ≠ nm "IDAT").filter q).filter (fun c => c.name = nm "IDAT") = [] := by
    intro l q
    rw [List.filter_eq_nil_iff]
    intro c hc
    have hall := List.all_eq_true.mp (List.all_takeWhile (l := l) (p := fun c => c.name ≠ nm "IDAT")) c
      (List.mem_filter.mp hc).1
    simpa using hall
  have hkey : (keyChunks p.raw.ihdr.ct).filter (fun c => c.name = nm "IDAT") = [] := by
    rw [List.filter_eq_nil_iff]
    intro c hc
    rcases keyChunks_names _ c hc with h | h <;> simp [h, e3, e4]
  have hfr : ∀ s, (frameChunks p.frames s).filter (fun c => c.name = nm "IDAT") = [] := by
    intro s
    rw [List.filter_eq_nil_iff]
    intro c hc
    rcases frameChunks_names _ _ c hc with h | h <;> simp [h, e5, e6]
  have hpost : ∀ (l : List Chunk), ((l.filter fun c => c.name ≠ nm "IDAT")).filter (fun c => c.name = nm "IDAT") = [] := by
    intro l
    rw [List.filter_eq_nil_iff]
    intro c hc
    have := (List.mem_filter.mp hc).2
    simpa using this
  simp only [hpre, hkey, hfr, hpost, List.nil_append, List.append_nil]

/-- PLTE is written iff the image is indexed, with 3 bytes per entry; tRNS never has more entries
    than the palette. -/
theorem plte_trns_sizes (pal : List Rgba) :
    ∃ plte, (keyChunks (.indexed pal)).head? = some plte ∧ plte.name = nm "PLTE" ∧ plte.data.length = 3 * pal.length ∧
      ∀ t ∈ (keyChunks (.indexed pal)).tail, t.name = nm "tRNS" ∧ t.data.length ≤ pal.length := by
  simp only [keyChunks]
  have hl : (pal.flatMap fun e => [e.r, e.g, e.b]).length = 3 * pal.length := by
    induction pal with
    | nil => rfl
    | cons e es ih => simp [List.flatMap_cons, ih]; omega
  split
  · refine ⟨_, rfl, rfl, hl, ?_⟩
    intro t ht
    simp at ht
    subst ht
    refine ⟨rfl, ?_⟩
    simp [List.length_take]; omega
  · exact ⟨_, rfl, rfl, hl, by simp⟩

theorem no_plte_unless_indexed (ct : ColorType) (h : ct.isIndexed = false) :
    ∀ c ∈ keyChunks ct, c.name ≠ nm "PLTE" := by
  have e : nm "tRNS" ≠ nm "PLTE" := by decide
  intro c hc
  cases ct with
  | gray t => cases t <;> simp [keyChunks] at hc; rw [hc]; exact e
  | rgb t =>
    cases t with
    | none => simp [keyChunks] at hc
    | some k => obtain ⟨r, g, b⟩ := k; simp [keyChunks] at hc; rw [hc]; exact e
  | indexed pal => simp [ColorType.isIndexed] at h
  | grayAlpha => simp [keyChunks] at hc
  | rgba => simp [keyChunks] at hc

/-- Chunks that the specification places before PLTE are written before it, those that must
    follow it (bKGD, hIST, tRNS — and fcTL, see issue #625) after it, all before IDAT. -/
theorem placement (p : PngData) :
    ∃ before after post,
      outputChunks p = [⟨nm "IHDR", ihdrBytes p.raw.ihdr⟩] ++ before ++ keyChunks p.raw.ihdr.ct ++ after ++
        [⟨nm "IDAT", p.idat⟩] ++ frameChunks p.frames ((after.filter fun c => c.name = nm "fcTL").length) ++ post ++
        [⟨nm "IEND", []⟩] ∧
      (∀ c ∈ before, isAfterPlte c.name = false) ∧ (∀ c ∈ after, isAfterPlte c.name = true) := by
  refine ⟨_, _, _, rfl, ?_, ?_⟩
  · intro c hc; simpa using (List.mem_filter.mp hc).2
  · intro c hc; simpa using (List.mem_filter.mp hc).2

/-- Non-vacuity: fields round-trip and the hypotheses of the framing theorem are satisfiable. -/
example : readBE (be32 300) = 300 ∧ Framable ⟨[80, 76, 84, 69], [1, 2, 3]⟩ := by
  refine ⟨by decide, rfl, by decide⟩

/-! ### palettes produced by the reductions stay well-formed -/
section palettes
open OxiModel.Spec

/-- **Conversion to a palette gives a palette of at most 256 entries and only indices inside it.** -/
theorem to_indexed_wellformed (i j : Img) (ag : Bool) (h : reducedToIndexed i ag = some j) :
    ∃ pal, j.ihdr.ct = .indexed pal ∧ pal.length ≤ 256 ∧ j.ihdr.depth = 8 ∧ ∀ b ∈ j.data, b.toNat < pal.length := by
  unfold reducedToIndexed at h
  by_cases hd : i.ihdr.depth = 8
  · simp only [hd, ne_eq, not_true_eq_false, if_false] at h
    split at h
    · cases h
    · split at h
      · cases h
      · cases hb : buildPalette (chunksExact i.ihdr.ct.channels i.data) [] [] with
        | none => simp [hb] at h
        | some pr =>
          obtain ⟨pmap, raw⟩ := pr
          simp only [hb, Option.some.injEq] at h
          subst h
          obtain ⟨idxs, h1, h2, _, h4⟩ := buildPalette_spec _ [] [] pmap raw hb (by simp)
          simp only [List.reverse_nil, List.nil_append] at h1
          subst h1
          refine ⟨pmap.map (paletteEntry i.ihdr.ct), rfl, by simpa using h4, rfl, ?_⟩
          intro b hb'
          simp only [List.length_map]
          -- the index of b points at a pixel, so it is inside the map
          have : (fun b : UInt8 => pmap[b.toNat]?) b ∈ raw.map (fun b => pmap[b.toNat]?) := List.mem_map_of_mem hb'
          rw [h2] at this
          obtain ⟨px, _, hpx⟩ := List.mem_map.mp this
          exact lt_of_getElem?_some _ _ _ hpx.symm
  · simp [hd] at h

/-- **Condensing the palette keeps every index inside the (new) palette, which has at most 256 entries.** -/
theorem reduced_palette_wellformed (i j : Img) (h : reducedPalette i false = some j) :
    ∃ pal, j.ihdr.ct = .indexed pal ∧ pal.length ≤ 256 ∧ ∀ b ∈ j.data, b.toNat < pal.length := by
  unfold reducedPalette at h
  by_cases hd : i.ihdr.depth = 8
  · simp only [hd, ne_eq, not_true_eq_false, if_false] at h
    cases hc : i.ihdr.ct with
    | indexed palette =>
      simp only [hc] at h
      have hu : ((List.range 256).filter fun k => i.data.contains (UInt8.ofNat k)).length ≤ 256 := by
        have := List.length_filter_le (fun k => i.data.contains (UInt8.ofNat k)) (List.range 256)
        simpa using this
      have hmemU := used_mem i.data
      generalize ((List.range 256).filter fun k => i.data.contains (UInt8.ofNat k)) = U at h hu hmemU
      obtain ⟨hinv, hlen⟩ := palFold_inv palette U ([], [], false) [] (by intro k hk; cases hk) (by simpa using hu)
      generalize List.foldl (palStep palette false) ([], [], false) U = st at h hinv hlen
      have key : ∀ b ∈ i.data, ∃ idx, st.2.1.lookup b.toNat = some idx ∧
          st.1[idx]? = some (palette.getD b.toNat blackEntry) ∧ (st.2.2 = false → idx = b.toNat) := by
        intro b hb
        exact hinv b.toNat (by simpa using hmemU b hb)
      cases hch : st.2.2
      case true =>
        simp only [hch, if_true, Option.some.injEq] at h
        subst h
        refine ⟨st.1, rfl, hlen, ?_⟩
        intro b hb
        obtain ⟨b0, hb0, rfl⟩ := List.mem_map.mp hb
        obtain ⟨idx, h1, h2, _⟩ := key b0 hb0
        have hlt := lt_of_getElem?_some _ _ _ h2
        rw [lookup_getD_ofNat _ _ idx h1 (by omega)]
        exact hlt
      case false =>
        simp only [hch, Bool.false_eq_true, if_false] at h
        split at h
        · simp only [Option.some.injEq] at h
          subst h
          refine ⟨st.1, rfl, hlen, ?_⟩
          intro b hb
          obtain ⟨idx, _, h2, h3⟩ := key b hb
          have := h3 hch
          subst this
          exact lt_of_getElem?_some _ _ _ h2
        · cases h
    | gray t => simp [hc] at h
    | rgb t => simp [hc] at h
    | grayAlpha => simp [hc] at h
    | rgba => simp [hc] at h
  · simp [hd] at h

/-- **Reducing the bit depth of an indexed image keeps the palette addressable**: the new depth `d`
    satisfies `palette.length ≤ 2^d` (the palette itself is untouched). -/
theorem depth_reduction_palette_fits (i j : Img) (pal : List Rgba) (hc : i.ihdr.ct = .indexed pal)
    (h : reducedBitDepth8OrLess i = some j) :
    j.ihdr.ct = .indexed pal ∧ pal.length ≤ 2 ^ j.ihdr.depth ∧ (j.ihdr.depth = 1 ∨ j.ihdr.depth = 2 ∨ j.ihdr.depth = 4) := by
  unfold reducedBitDepth8OrLess at h
  split at h
  · cases h
  · simp only [hc] at h
    cases hs : i.scanLines false with
    | none => simp [hs] at h
    | some lines =>
      by_cases h2 : pal.length ≤ 2
      · simp only [h2, if_true, hs, Option.some.injEq] at h
        subst h
        exact ⟨rfl, by simpa using h2, Or.inl rfl⟩
      · by_cases h4 : pal.length ≤ 4
        · simp only [h2, h4, if_true, if_false, hs, Option.some.injEq] at h
          subst h
          exact ⟨rfl, by simpa using h4, Or.inr (Or.inl rfl)⟩
        · by_cases h16 : pal.length ≤ 16
          · simp only [h2, h4, h16, if_true, if_false, hs, Option.some.injEq] at h
            subst h
            exact ⟨rfl, by simpa using h16, Or.inr (Or.inr rfl)⟩
          · simp [h2, h4, h16] at h

end palettes

end OxiModel.C02

import OxiModel.RawApi
import OxiModel.GeomProofs
/-
  C11 — the raw-image API: inconsistent arguments are rejected, accepted ones describe a
  well-formed non-interlaced image whose data is exactly the specification's scan lines.
-/
namespace OxiModel.C11
open OxiModel

/-- exactly which argument tuples are accepted -/
theorem accepts_iff (w h : Nat) (ct : ColorType) (depth dataLen : Nat) :
    rawNewAccepts w h ct depth dataLen = true ↔
      (rawValidDepth ct depth = true ∧ w ≠ 0 ∧ h ≠ 0 ∧ rawPaletteOk ct depth = true ∧
       rawRowBytes w ct depth * h < 2 ^ 64 ∧ dataLen = rawRowBytes w ct depth * h) := by
  simp [rawNewAccepts, and_assoc]

/-- a depth that is illegal for the colour type is rejected, whatever the other arguments -/
theorem illegal_depth_rejected (w h : Nat) (ct : ColorType) (depth dataLen : Nat)
    (hbad : rawValidDepth ct depth = false) : rawNewAccepts w h ct depth dataLen = false := by
  simp [rawNewAccepts, hbad]

/-- a data length other than `row bytes × height` is rejected -/
theorem wrong_length_rejected (w h : Nat) (ct : ColorType) (depth dataLen : Nat)
    (hbad : dataLen ≠ rawRowBytes w ct depth * h) : rawNewAccepts w h ct depth dataLen = false := by
  simp [rawNewAccepts, hbad]

/-- zero dimensions are rejected -/
theorem zero_dims_rejected (w h : Nat) (ct : ColorType) (depth dataLen : Nat) (hz : w = 0 ∨ h = 0) :
    rawNewAccepts w h ct depth dataLen = false := by
  rcases hz with rfl | rfl <;> simp [rawNewAccepts]

/-- the size computation cannot overflow for accepted arguments (the product is checked) -/
theorem accepted_size_fits (w h : Nat) (ct : ColorType) (depth dataLen : Nat)
    (h1 : rawNewAccepts w h ct depth dataLen = true) : dataLen < 2 ^ 64 := by
  rw [accepts_iff] at h1
  omega

/-- for a legal depth the colour-type rule of `RawImage::new` is the specification's table -/
theorem validDepth_is_depthLegal (ct : ColorType) (depth : Nat)
    (hd : depth = 1 ∨ depth = 2 ∨ depth = 4 ∨ depth = 8 ∨ depth = 16) :
    rawValidDepth ct depth = depthLegal ct depth := by
  cases ct <;> rcases hd with rfl | rfl | rfl | rfl | rfl <;> simp [rawValidDepth, depthLegal]

/-- Accepted data is exactly as long as the scan lines (without filter bytes) the specification
    prescribes for a non-interlaced image of these dimensions: every sample given is a sample of
    the image, none is missing. -/
theorem accepted_data_is_the_image (w h : Nat) (ct : ColorType) (depth dataLen : Nat)
    (h1 : rawNewAccepts w h ct depth dataLen = true) :
    dataLen = Spec.dataSize w h (depth * ct.channels) false false := by
  rw [accepts_iff] at h1
  obtain ⟨_, _, _, _, _, hlen⟩ := h1
  rw [dataSize_progressive, hlen]
  simp [rawRowBytes, Spec.rowBytes, Nat.mul_comm]

/-- Non-vacuity -/
example : rawNewAccepts 3 2 (.rgb none) 8 18 = true ∧ rawNewAccepts 3 2 (.rgb none) 4 18 = false ∧
          rawNewAccepts 3 2 (.rgb none) 8 17 = false := by decide

end OxiModel.C11

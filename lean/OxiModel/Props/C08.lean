import OxiModel.PipelineProofs
import OxiModel.Meta
/-
  C08 — disabled transformation classes are really disabled.
  One frame lemma per operation ("what it may change"), the guard table, and the closure over
  arbitrary sequences of allowed operations.
-/
namespace OxiModel.C08
open OxiModel

/-- what a run must preserve under the given switches -/
structure Respects (sw : Switches) (i o : Img) : Prop where
  dims : o.ihdr.width = i.ihdr.width ∧ o.ihdr.height = i.ihdr.height
  depth : sw.bitDepth = false → o.ihdr.depth = i.ihdr.depth
  code : sw.colorType = false → o.ihdr.ct.code = i.ihdr.ct.code
  gray : sw.grayscale = false → o.ihdr.ct.isGray = i.ihdr.ct.isGray
  palette : sw.palette = false → ∀ p, i.ihdr.ct = .indexed p → o.ihdr.ct.isIndexed = true → o.ihdr.ct = .indexed p
  interlace : sw.interlace = none → o.ihdr.interlaced = i.ihdr.interlaced

theorem respects_refl (sw : Switches) (i : Img) : Respects sw i i :=
  ⟨⟨rfl, rfl⟩, fun _ => rfl, fun _ => rfl, fun _ => rfl, fun _ p h _ => h, fun _ => rfl⟩

/-! ### one step, and any number of steps -/

theorem isGray_indexed (ct : ColorType) (h : ct.isIndexed = true) : ct.isGray = false := by
  cases ct <;> simp [ColorType.isIndexed, ColorType.isGray] at h ⊢

theorem code_of_indexed {ct : ColorType} {p : List Rgba} (h : ct = .indexed p) : ct.isIndexed = true := by
  subst h; rfl

/-- **Every allowed operation respects every disabled switch.** -/
theorem step_respects (sw : Switches) (op : Op) (i o : Img) (hal : allowed sw op = true)
    (h : applyOp sw op i = some o) : Respects sw i o := by
  cases op with
  | interlace to =>
    obtain ⟨hh, _⟩ := interlace_frame i o to h
    simp only [allowed, decide_eq_true_eq] at hal
    refine ⟨by simp [hh], by simp [hh], by simp [hh], by simp [hh], ?_, ?_⟩
    · intro _ p hp _; rw [hh]; exact hp
    · intro hn; rw [hn] at hal; cases hal
  | cleanAlpha =>
    have hh := cleanAlpha_frame i o h
    refine ⟨by simp [hh], by simp [hh], by simp [hh], by simp [hh], ?_, by simp [hh]⟩
    intro _ p hp _; rw [hh]; exact hp
  | depth16to8 =>
    obtain ⟨h1, h2, h3, h4, h5, h6⟩ := depth16to8_frame i o _ h
    simp only [allowed] at hal
    refine ⟨⟨h1, h2⟩, ?_, fun _ => h4, fun _ => h5, fun _ p hp _ => h6 p hp, fun _ => h3⟩
    intro hb; rw [hb] at hal; cases hal
  | rgbToGray =>
    obtain ⟨h1, h2, h3, h4, h5⟩ := rgbToGray_frame i o h
    simp only [allowed, Bool.and_eq_true] at hal
    refine ⟨⟨h1, h2⟩, fun _ => h4, ?_, ?_, ?_, fun _ => h3⟩
    · intro hc; rw [hc] at hal; cases hal.1
    · intro hg; rw [hg] at hal; cases hal.2
    · intro _ p hp _; rw [hp] at h5; cases h5
  | expandTo8 =>
    obtain ⟨h1, h2, h3, h4, h5, h6⟩ := expand_frame i o h
    simp only [allowed] at hal
    refine ⟨⟨h1, h2⟩, ?_, fun _ => h4, fun _ => h5, fun _ p hp _ => h6 p hp, fun _ => h3⟩
    intro hb; rw [hb] at hal; cases hal
  | condensePalette =>
    obtain ⟨h1, h2, h3, h4, h5, h6⟩ := condense_frame i o _ h
    simp only [allowed] at hal
    refine ⟨⟨h1, h2⟩, fun _ => h4, fun _ => h5, fun _ => h6, ?_, fun _ => h3⟩
    intro hp; rw [hp] at hal; cases hal
  | sortLuma =>
    obtain ⟨h1, h2, h3, h4, h5, h6⟩ := sortLuma_frame i o h
    simp only [allowed] at hal
    refine ⟨⟨h1, h2⟩, fun _ => h4, fun _ => h5, fun _ => h6, ?_, fun _ => h3⟩
    intro hp; rw [hp] at hal; cases hal
  | dropAlpha =>
    obtain ⟨h1, h2, h3, h4, h5, h6⟩ := dropAlpha_frame i o _ h
    simp only [allowed] at hal
    refine ⟨⟨h1, h2⟩, fun _ => h4, ?_, fun _ => h5, ?_, fun _ => h3⟩
    · intro hc; rw [hc] at hal; cases hal
    · intro _ p hp _; rw [hp] at h6; cases h6
  | indexedToChannels =>
    obtain ⟨h1, h2, h3, h4, h5, h6, h7⟩ := indexedToChannels_frame i o _ _ h
    simp only [allowed] at hal
    refine ⟨⟨h1, h2⟩, fun _ => h4, ?_, ?_, ?_, fun _ => h3⟩
    · intro hc; rw [hc] at hal; cases hal
    · intro hg; rw [h7 hg, isGray_indexed _ h5]
    · intro _ p _ ho; rw [h6] at ho; cases ho
  | toIndexed =>
    simp only [applyOp, Option.map_eq_some_iff] at h
    obtain ⟨r, hr, hro⟩ := h
    obtain ⟨h1, h2, h3, h4, h5, h6, h7⟩ := toIndexed_frame i r _ hr
    simp only [allowed] at hal
    -- the luma sort that follows keeps everything but the palette
    have hs : o.ihdr.width = r.ihdr.width ∧ o.ihdr.height = r.ihdr.height ∧ o.ihdr.interlaced = r.ihdr.interlaced ∧
        o.ihdr.depth = r.ihdr.depth ∧ o.ihdr.ct.isGray = r.ihdr.ct.isGray := by
      cases hsp : sortedPalette r with
      | none => simp [hsp] at hro; subst hro; exact ⟨rfl, rfl, rfl, rfl, rfl⟩
      | some s =>
        simp [hsp] at hro; subst hro
        obtain ⟨a1, a2, a3, a4, _, a6⟩ := sortLuma_frame r s hsp
        exact ⟨a1, a2, a3, a4, a6⟩
    obtain ⟨s1, s2, s3, s4, s5⟩ := hs
    refine ⟨⟨s1.trans h1, s2.trans h2⟩, fun _ => s4.trans h4, ?_, ?_, ?_, fun _ => s3.trans h3⟩
    · intro hc; rw [hc] at hal; cases hal
    · intro hg; rw [s5, isGray_indexed _ h6, h7 hg]
    · intro _ p hp _; rw [hp] at h5; cases h5
  | reduceDepth8 =>
    obtain ⟨h1, h2, h3, h4, h5, h6⟩ := reduce8_frame i o h
    simp only [allowed] at hal
    refine ⟨⟨h1, h2⟩, ?_, fun _ => h4, fun _ => h5, fun _ p hp _ => h6 p hp, fun _ => h3⟩
    intro hb; rw [hb] at hal; cases hal

theorem indexed_of_code {a b : ColorType} (h : a.code = b.code) (hb : b.isIndexed = true) : a.isIndexed = true := by
  cases a <;> cases b <;> simp_all [ColorType.code, ColorType.isIndexed]

/-- operations other than the leaf keep an indexed image indexed -/
theorem nonleaf_keeps_indexed (sw : Switches) (op : Op) (i o : Img) (hl : op.isLeaf = false)
    (h : applyOp sw op i = some o) (hi : i.ihdr.ct.isIndexed = true) : o.ihdr.ct.isIndexed = true := by
  cases op with
  | interlace to => obtain ⟨hh, _⟩ := interlace_frame i o to h; rw [hh]; exact hi
  | cleanAlpha => rw [cleanAlpha_frame i o h]; exact hi
  | depth16to8 => exact indexed_of_code (depth16to8_frame i o _ h).2.2.2.1 hi
  | rgbToGray => have := (rgbToGray_frame i o h).2.2.2.2; rw [this] at hi; cases hi
  | expandTo8 => exact indexed_of_code (expand_frame i o h).2.2.2.1 hi
  | condensePalette => exact indexed_of_code (condense_frame i o _ h).2.2.2.2.1 hi
  | sortLuma => exact indexed_of_code (sortLuma_frame i o h).2.2.2.2.1 hi
  | dropAlpha => have := (dropAlpha_frame i o _ h).2.2.2.2.2; rw [this] at hi; cases hi
  | indexedToChannels => cases hl
  | toIndexed =>
    simp only [applyOp, Option.map_eq_some_iff] at h
    obtain ⟨r, hr, _⟩ := h
    have := (toIndexed_frame i r _ hr).2.2.2.2.1; rw [this] at hi; cases hi
  | reduceDepth8 => exact indexed_of_code (reduce8_frame i o h).2.2.2.1 hi

theorem respects_trans (sw : Switches) (i m o : Img) (h1 : Respects sw i m)
    (hidx : i.ihdr.ct.isIndexed = true → m.ihdr.ct.isIndexed = true) (h2 : Respects sw m o) :
    Respects sw i o := by
  refine ⟨⟨h2.dims.1.trans h1.dims.1, h2.dims.2.trans h1.dims.2⟩, fun hb => (h2.depth hb).trans (h1.depth hb),
    fun hc => (h2.code hc).trans (h1.code hc), fun hg => (h2.gray hg).trans (h1.gray hg), ?_,
    fun hn => (h2.interlace hn).trans (h1.interlace hn)⟩
  intro hp p hip ho
  have hm : m.ihdr.ct.isIndexed = true := hidx (by rw [hip]; rfl)
  have hmp := h1.palette hp p hip hm
  exact h2.palette hp p hmp ho

/-- chains of non-leaf operations, each allowed by the switches -/
inductive Chain (sw : Switches) : Img → Img → Prop
  | refl (i : Img) : Chain sw i i
  | step {i m o : Img} (op : Op) : Chain sw i m → op.isLeaf = false →
      allowed sw op = true → applyOp sw op m = some o → Chain sw i o

/-- what `perform_reductions` can hand to an evaluator or return: a chain, optionally followed by
    the leaf operation (indexed → channels), whose result is never transformed further -/
inductive Lineage (sw : Switches) : Img → Img → Prop
  | chain {i o : Img} : Chain sw i o → Lineage sw i o
  | leaf {i m o : Img} (op : Op) : Chain sw i m → allowed sw op = true → applyOp sw op m = some o → Lineage sw i o

theorem chain_respects (sw : Switches) (i o : Img) (h : Chain sw i o) :
    Respects sw i o ∧ (i.ihdr.ct.isIndexed = true → o.ihdr.ct.isIndexed = true) := by
  induction h with
  | refl => exact ⟨respects_refl sw _, fun h => h⟩
  | step op _ hl hal happ ih =>
    obtain ⟨ih1, ih2⟩ := ih
    exact ⟨respects_trans sw _ _ _ ih1 ih2 (step_respects sw op _ _ hal happ),
           fun hi => nonleaf_keeps_indexed sw op _ _ hl happ (ih2 hi)⟩

/-- **Closure theorem.** Whatever sequence of enabled operations produced an image — any order,
    any number, any subset skipped — every disabled class is untouched: bit depth, colour-type
    code, gray/colour, the exact palette of an image that stays indexed, the interlace flag. -/
theorem lineage_respects (sw : Switches) (i o : Img) (h : Lineage sw i o) : Respects sw i o := by
  cases h with
  | chain hc => exact (chain_respects sw i o hc).1
  | leaf op hc hal happ =>
    obtain ⟨h1, h2⟩ := chain_respects sw i _ hc
    exact respects_trans sw _ _ _ h1 h2 (step_respects sw op _ _ hal happ)

/-- With every transformation class disabled no operation is allowed at all: the only image in
    any lineage is the input itself. -/
theorem nothing_enabled_identity (sw : Switches) (hb : sw.bitDepth = false) (hc : sw.colorType = false)
    (hp : sw.palette = false) (hi : sw.interlace = none) (ha : sw.alpha = false)
    (i o : Img) (h : Lineage sw i o) : o = i := by
  have none_allowed : ∀ op, allowed sw op = false := by
    intro op; cases op <;> simp [allowed, hb, hc, hp, hi, ha]
  cases h with
  | chain hch =>
    cases hch with
    | refl => rfl
    | step op _ _ hal _ => rw [none_allowed op] at hal; cases hal
  | leaf op _ hal _ => rw [none_allowed op] at hal; cases hal

/-- Non-vacuity: an operation that is allowed and applies, and the switches it respects. -/
example : allowed ⟨true, false, false, false, none, false, false⟩ .depth16to8 = true ∧
    applyOp ⟨true, false, false, false, none, false, false⟩ .depth16to8
      ⟨⟨1, 1, .rgb none, 16, false⟩, [7, 7, 8, 8, 9, 9]⟩ = some ⟨⟨1, 1, .rgb none, 8, false⟩, [7, 8, 9]⟩ := by
  decide

/-! ### the pre-pass over the chunks can only take permissions away -/

/-- **`preprocess_chunks` never switches a disabled class on**: whatever the chunks, the strip policy
    and the profile contents, every permission of the options it returns was already given by the
    caller (so the switch theorems above apply with the caller's switches). -/
theorem prepass_only_restricts (aux : List Chunk) (o : MetaOpts) (inf : Bytes → Option Bytes)
    (rc : Bytes → Nat → Option Bytes) :
    let o' := (preprocessChunks aux o inf rc).2
    (o'.grayscale = true → o.grayscale = true) ∧ (o'.bitDepth = true → o.bitDepth = true) ∧
    (o'.colorType = true → o.colorType = true) ∧ (o'.palette = true → o.palette = true) ∧
    (o'.interlace = o.interlace ∨ o'.interlace = none) := by
  simp only [preprocessChunks, finishOpts]
  generalize (iccStage aux o inf rc).2 = allow
  generalize (iccStage aux o inf rc).1 = aux'
  cases allow <;> cases hg : o.grayscale <;> cases hasChunk aux' (nm "acTL") <;> simp [hg]

end OxiModel.C08

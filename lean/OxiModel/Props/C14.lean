import OxiModel.Meta
/-
  C14 — colour-space metadata stays consistent with the pixel format.
-/
namespace OxiModel.C14
open OxiModel

/-- when conversion is not allowed the grayscale switch ends up off -/
theorem finish_gray_off (aux : List Chunk) (o : MetaOpts) : (finishOpts aux false o).grayscale = false := by
  unfold finishOpts
  cases hg : o.grayscale <;> simp [hg] <;> split <;> simp [hg]

/-- an animated image has every transformation class switched off (C10) -/
theorem finish_apng (aux : List Chunk) (allow : Bool) (o : MetaOpts) (h : hasChunk aux (nm "acTL") = true) :
    let o' := finishOpts aux allow o
    o'.interlace = none ∧ o'.bitDepth = false ∧ o'.colorType = false ∧ o'.palette = false ∧ o'.grayscale = false := by
  simp [finishOpts, h]

/-- **All shapes of the colour-space stage.** Whatever the policy, the chunk list is unchanged, or
    the first iCCP is (a) removed — only with stripping on, sRGB kept and an sRGB chunk present; (b)
    replaced by an sRGB chunk carrying the profile's rendering intent — only with stripping on, sRGB
    kept and a recognised profile; (c) replaced by a recompressed iCCP of the same inflated profile.
    Grayscale conversion is allowed afterwards only in (a), (b), or when there was no iCCP at all. -/
theorem iccStage_shapes (aux : List Chunk) (o : MetaOpts) (inf : Bytes → Option Bytes)
    (rc : Bytes → Nat → Option Bytes) :
    let r := iccStage aux o inf rc
    (aux.findIdx? (fun c => c.name = nm "iCCP") = none ∧ r = (aux, !hasChunk aux (nm "sRGB") || o.strip ≠ .none)) ∨
    (∃ idx, aux.findIdx? (fun c => c.name = nm "iCCP") = some idx ∧
      (r = (aux, false) ∨
       (r = (aux.eraseIdx idx, true) ∧ o.strip ≠ .none ∧ o.strip.keeps (nm "sRGB") = true ∧ hasChunk aux (nm "sRGB") = true) ∨
       (∃ intent icc, r = (aux.set idx ⟨nm "sRGB", [intent]⟩, true) ∧ o.strip ≠ .none ∧ o.strip.keeps (nm "sRGB") = true ∧
          (iccpCompressed (aux.getD idx default).data).bind inf = some icc ∧ srgbRenderingIntent icc = some intent) ∨
       (∃ icc z, r = (aux.set idx (makeIccp z), false) ∧ o.idatRecoding = true ∧
          (iccpCompressed (aux.getD idx default).data).bind inf = some icc ∧
          rc icc ((aux.getD idx default).data.length - 1) = some z))) := by
  simp only [iccStage]
  cases hidx : aux.findIdx? (fun c => c.name = nm "iCCP") with
  | none => left; exact ⟨rfl, rfl⟩
  | some idx =>
    right
    refine ⟨idx, rfl, ?_⟩
    simp only
    by_cases hmay : (o.strip ≠ .none && o.strip.keeps (nm "sRGB")) = true
    · have hmay' : o.strip ≠ .none ∧ o.strip.keeps (nm "sRGB") = true := by
        simp only [Bool.and_eq_true, ne_eq, decide_eq_true_eq] at hmay
        exact ⟨by simpa using hmay.1, hmay.2⟩
      by_cases hsr : hasChunk aux (nm "sRGB") = true
      · rw [if_pos (by rw [hmay, hsr]; rfl)]
        exact Or.inr (Or.inl ⟨rfl, hmay'.1, hmay'.2, hsr⟩)
      · rw [if_neg (by rw [hmay]; simpa using hsr)]
        cases hicc : (iccpCompressed (aux.getD idx default).data).bind inf with
        | none => left; rfl
        | some icc =>
          simp only [hmay, if_true]
          cases hint : srgbRenderingIntent icc with
          | some intent => exact Or.inr (Or.inr (Or.inl ⟨intent, icc, rfl, hmay'.1, hmay'.2, rfl, hint⟩))
          | none =>
            simp only
            by_cases hrec : o.idatRecoding = true
            · rw [if_pos hrec]
              cases hz : rc icc ((aux.getD idx default).data.length - 1) with
              | none => left; rfl
              | some z => exact Or.inr (Or.inr (Or.inr ⟨icc, z, rfl, hrec, rfl, hz⟩))
            · rw [if_neg hrec]; left; rfl
    · rw [if_neg (by intro h; apply hmay; simp only [Bool.and_eq_true] at h ⊢; exact h.1)]
      cases hicc : (iccpCompressed (aux.getD idx default).data).bind inf with
      | none => left; rfl
      | some icc =>
        simp only [hmay, Bool.false_eq_true, if_false]
        by_cases hrec : o.idatRecoding = true
        · rw [if_pos hrec]
          cases hz : rc icc ((aux.getD idx default).data.length - 1) with
          | none => left; rfl
          | some z => exact Or.inr (Or.inr (Or.inr ⟨icc, z, rfl, hrec, rfl, hz⟩))
        · rw [if_neg hrec]; left; rfl

/-- **Replacement and recompression happen in place**: unless the profile is dropped in favour of an
    existing sRGB chunk, the chunk list keeps its length and every other chunk keeps its position - so
    the new sRGB (or recompressed iCCP) chunk stands exactly where the iCCP stood, on the same side
    of PLTE and IDAT (the seeded change C02j appended it behind the image-data marker instead). -/
theorem replacement_in_place (aux : List Chunk) (o : MetaOpts) (inf : Bytes → Option Bytes)
    (rc : Bytes → Nat → Option Bytes) (idx : Nat)
    (hidx : aux.findIdx? (fun c => c.name = nm "iCCP") = some idx)
    (hkeep : ¬ ((o.strip ≠ .none && o.strip.keeps (nm "sRGB")) = true ∧ hasChunk aux (nm "sRGB") = true)) :
    (iccStage aux o inf rc).1.length = aux.length ∧
    ∀ j, j ≠ idx → (iccStage aux o inf rc).1[j]? = aux[j]? := by
  have hs := iccStage_shapes aux o inf rc
  simp only at hs
  rcases hs with ⟨hnone, _⟩ | ⟨i, hi, hr⟩
  · rw [hidx] at hnone; cases hnone
  · rw [hidx] at hi
    cases hi
    rcases hr with h | ⟨_, h1, h2, h3⟩ | ⟨intent, icc, h, _⟩ | ⟨icc, z, h, _⟩
    · rw [h]; exact ⟨rfl, fun _ _ => rfl⟩
    · exfalso
      apply hkeep
      refine ⟨?_, h3⟩
      simp only [Bool.and_eq_true, ne_eq, decide_eq_true_eq]
      exact ⟨by simpa using h1, h2⟩
    · rw [h]
      exact ⟨List.length_set, fun j hj => List.getElem?_set_ne (Ne.symm hj)⟩
    · rw [h]
      exact ⟨List.length_set, fun j hj => List.getElem?_set_ne (Ne.symm hj)⟩

/-- **An ICC profile that is kept (as is, or recompressed) disables grayscale conversion**, so by
    C08 the image never moves between grayscale and colour while the profile is kept. -/
theorem kept_icc_blocks_gray (aux : List Chunk) (o : MetaOpts) (inf : Bytes → Option Bytes)
    (rc : Bytes → Nat → Option Bytes) (idx : Nat)
    (hidx : aux.findIdx? (fun c => c.name = nm "iCCP") = some idx) (hlt : idx < aux.length)
    (hlen : (preprocessChunks aux o inf rc).1.length = aux.length)
    (hname : ((preprocessChunks aux o inf rc).1.getD idx default).name = nm "iCCP") :
    (preprocessChunks aux o inf rc).2.grayscale = false := by
  have hne : nm "sRGB" ≠ nm "iCCP" := by decide
  simp only [preprocessChunks] at hlen hname ⊢
  rcases iccStage_shapes aux o inf rc with ⟨hnone, _⟩ | ⟨idx', hidx', hcase⟩
  · rw [hidx] at hnone; cases hnone
  · rw [hidx] at hidx'
    injection hidx' with hidx'
    subst hidx'
    rcases hcase with h | ⟨h, _⟩ | ⟨intent, icc, h, _⟩ | ⟨icc, z, h, _⟩
    · rw [h]; exact finish_gray_off _ _
    · rw [h] at hlen
      simp only at hlen
      rw [List.length_eraseIdx_of_lt hlt] at hlen
      omega
    · rw [h] at hname
      simp only at hname
      rw [List.getD_eq_getElem?_getD, List.getElem?_set_self hlt] at hname
      exact absurd hname hne
    · rw [h]; exact finish_gray_off _ _

/-- With an sRGB chunk, no iCCP chunk and no stripping, grayscale conversion is disabled. -/
theorem srgb_without_strip_blocks_gray (aux : List Chunk) (o : MetaOpts) (inf : Bytes → Option Bytes)
    (rc : Bytes → Nat → Option Bytes) (hs : hasChunk aux (nm "sRGB") = true) (hstrip : o.strip = .none)
    (hno : aux.findIdx? (fun c => c.name = nm "iCCP") = none) :
    (preprocessChunks aux o inf rc).2.grayscale = false := by
  simp only [preprocessChunks, iccStage, hno, hs, hstrip]
  exact finish_gray_off _ _

/-- A recompressed iCCP chunk carries exactly the compressed stream it was given (so, the
    compressor being the inverse of the inflater — contract D1 — the identical profile bytes). -/
theorem recompressed_payload (z : Bytes) : iccpCompressed (makeIccp z).data = some z := by
  simp [makeIccp, iccpCompressed, List.dropWhile]

/-- After a gray↔colour conversion no sRGB or iCCP chunk is left. -/
theorem gray_change_drops_colour_space (aux : List Chunk) (new orig : Ihdr)
    (h : orig.ct.isGray ≠ new.ct.isGray) :
    ∀ c ∈ postprocessChunks aux new orig, c.name ≠ nm "sRGB" ∧ c.name ≠ nm "iCCP" := by
  intro c hc
  simp only [postprocessChunks, h, ne_eq, not_false_eq_true, if_true] at hc
  have := (List.mem_filter.mp hc).2
  simpa using this

/-- `postprocess_chunks` only ever drops chunks (order of the rest untouched), and only of the
    five names, each under its documented condition. -/
theorem postprocess_only_drops (aux : List Chunk) (new orig : Ihdr) :
    (postprocessChunks aux new orig).Sublist aux ∧
    ∀ c ∈ aux, c ∉ postprocessChunks aux new orig →
      ((c.name = nm "bKGD" ∨ c.name = nm "sBIT" ∨ c.name = nm "hIST") ∧ (orig.depth ≠ new.depth ∨ orig.ct ≠ new.ct)) ∨
      ((c.name = nm "sRGB" ∨ c.name = nm "iCCP") ∧ orig.ct.isGray ≠ new.ct.isGray) := by
  constructor
  · simp only [postprocessChunks]
    split <;> split <;>
      first
        | exact List.Sublist.refl _
        | exact List.filter_sublist
        | exact List.Sublist.trans List.filter_sublist List.filter_sublist
  · intro c hc hnot
    simp only [postprocessChunks] at hnot
    by_cases h1 : orig.depth ≠ new.depth ∨ orig.ct ≠ new.ct <;> by_cases h2 : orig.ct.isGray ≠ new.ct.isGray
    · simp only [h1, h2, if_true, ne_eq, not_false_eq_true] at hnot
      by_cases hk : c.name = nm "bKGD" ∨ c.name = nm "sBIT" ∨ c.name = nm "hIST"
      · left; exact ⟨hk, h1⟩
      · right
        refine ⟨?_, h2⟩
        have hk' : ¬ c.name = nm "bKGD" ∧ ¬ c.name = nm "sBIT" ∧ ¬ c.name = nm "hIST" := by
          refine ⟨fun h => hk (Or.inl h), fun h => hk (Or.inr (Or.inl h)), fun h => hk (Or.inr (Or.inr h))⟩
        have hin : c ∈ aux.filter fun c => !(c.name = nm "bKGD" || c.name = nm "sBIT" || c.name = nm "hIST") := by
          rw [List.mem_filter]; refine ⟨hc, ?_⟩; simp [hk'.1, hk'.2.1, hk'.2.2]
        by_cases hs : c.name = nm "sRGB" ∨ c.name = nm "iCCP"
        · exact hs
        · exfalso
          apply hnot
          rw [List.mem_filter]; refine ⟨hin, ?_⟩
          have : ¬ c.name = nm "sRGB" ∧ ¬ c.name = nm "iCCP" := ⟨fun h => hs (Or.inl h), fun h => hs (Or.inr h)⟩
          simp [this.1, this.2]
    · simp only [h1, h2, if_true, if_false] at hnot
      left
      refine ⟨?_, h1⟩
      by_cases hk : c.name = nm "bKGD" ∨ c.name = nm "sBIT" ∨ c.name = nm "hIST"
      · exact hk
      · exfalso
        apply hnot
        have hk' : ¬ c.name = nm "bKGD" ∧ ¬ c.name = nm "sBIT" ∧ ¬ c.name = nm "hIST" := by
          refine ⟨fun h => hk (Or.inl h), fun h => hk (Or.inr (Or.inl h)), fun h => hk (Or.inr (Or.inr h))⟩
        rw [List.mem_filter]; refine ⟨hc, ?_⟩; simp [hk'.1, hk'.2.1, hk'.2.2]
    · simp only [h1, h2, if_true, if_false, ne_eq, not_false_eq_true] at hnot
      right
      refine ⟨?_, h2⟩
      by_cases hs : c.name = nm "sRGB" ∨ c.name = nm "iCCP"
      · exact hs
      · exfalso
        apply hnot
        have : ¬ c.name = nm "sRGB" ∧ ¬ c.name = nm "iCCP" := ⟨fun h => hs (Or.inl h), fun h => hs (Or.inr h)⟩
        rw [List.mem_filter]; refine ⟨hc, ?_⟩; simp [this.1, this.2]
    · simp only [h1, h2, if_false] at hnot
      exact absurd hc hnot

/-- Non-vacuity: a recognised profile id yields its rendering intent. -/
example : srgbRenderingIntent (List.replicate 67 0 ++ [2] ++ List.replicate 16 0 ++
    [0x29,0xf8,0x3d,0xde,0xaf,0xf2,0x55,0xae,0x78,0x42,0xfa,0xe4,0xca,0x83,0x39,0x0d]) = some 2 := by decide

end OxiModel.C14

import OxiModel.ScanLines
/-
  Literal models of the reductions in /repo/src/reduction/{bit_depth,color,alpha,palette}.rs.
  Every function returns `none` exactly where the Rust function returns `None`.
  (Functions that can panic on malformed images are only run on well-formed ones here; the
  panic-freedom question belongs to C05.)
-/
namespace OxiModel

/-! ## helpers -/

def pairs16 : Bytes → List (UInt8 × UInt8)
  | a :: b :: rest => (a, b) :: pairs16 rest
  | _ => []

/-- `u8::rotate_left` -/
def rotl8 (b : UInt8) (k : Nat) : UInt8 :=
  let k := k % 8
  UInt8.ofNat ((b.toNat * 2 ^ k) % 256 + b.toNat / 2 ^ (8 - k))

/-- `while bits < 8 { v = (v << bits) | v; bits <<= 1 }` on a u16 (bits shifted out are lost) -/
def replicateBits (v bits : Nat) : Nat :=
  let step (v bits : Nat) : Nat := ((v * 2 ^ bits) % 65536) ||| v
  if bits ≥ 8 then v else
  let v := step v bits
  if bits * 2 ≥ 8 then v else
  let v := step v (bits * 2)
  if bits * 4 ≥ 8 then v else
  step v (bits * 4)

/-! ## 16 → 8 (bit_depth.rs) -/

/-- integer model of `(val * (255.0 / 65535.0)).round() as u8` (tied to the f32 code on all 65 536 inputs) -/
def scaleSample (hi lo : UInt8) : UInt8 :=
  if hi = lo then hi else UInt8.ofNat ((hi.toNat * 256 + lo.toNat + 128) / 257)

def trns16to8 (ct : ColorType) (conv : Nat → Option Nat) : ColorType :=
  match ct with
  | .gray (some s) => .gray (conv s)
  | .rgb (some (r, g, b)) =>
    match conv r, conv g, conv b with
    | some r, some g, some b => .rgb (some (r, g, b))
    | _, _, _ => .rgb none
  | ct => ct

def exactKey (v : Nat) : Option Nat :=
  let hi := v / 256 % 256
  let lo := v % 256
  if hi = lo then some hi else none

def scaledKey (v : Nat) : Option Nat :=
  some (scaleSample (UInt8.ofNat (v / 256)) (UInt8.ofNat v)).toNat

def scaledBitDepth16to8 (i : Img) : Option Img :=
  if i.ihdr.depth ≠ 16 then none else
  some ⟨{ i.ihdr with ct := trns16to8 i.ihdr.ct scaledKey, depth := 8 },
        (pairs16 i.data).map fun p => scaleSample p.1 p.2⟩

def reducedBitDepth16to8 (i : Img) (forceScale : Bool) : Option Img :=
  if i.ihdr.depth ≠ 16 then none else
  if forceScale then scaledBitDepth16to8 i else
  let ps := pairs16 i.data
  if ps.any (fun p => p.1 ≠ p.2) then none else
  some ⟨{ i.ihdr with ct := trns16to8 i.ihdr.ct exactKey, depth := 8 }, ps.map (·.1)⟩

/-! ## 8 → 1/2/4 -/

/-- are all `8 / bits` groups of `bits` bits of `b` identical? (the inner `for` of the depth search) -/
def groupsEqual (b : UInt8) (bits : Nat) : Bool :=
  let mask := UInt8.ofNat (2 ^ bits - 1)
  let first := rotl8 b bits &&& mask
  (List.range (8 / bits - 1)).all fun j => (rotl8 b (bits * (j + 2)) &&& mask) = first

/-- depth search for one byte starting from the current minimum; `none` = reached 8 -/
def minBitsStep (cur : Nat) (b : UInt8) : Option Nat :=
  if b = 0 ∨ b = 255 then some cur else
  if cur ≤ 1 ∧ groupsEqual b 1 then some 1 else
  if cur ≤ 2 ∧ groupsEqual b 2 then some 2 else
  if cur ≤ 4 ∧ groupsEqual b 4 then some 4 else none

def grayMinBits (data : Bytes) : Option Nat :=
  data.foldlM minBitsStep 1

def packLow (bits : Nat) (chunk : Bytes) : UInt8 :=
  let mask := UInt8.ofNat (2 ^ bits - 1)
  (chunk.zipIdx.foldl (fun acc (b, k) => acc ||| ((b &&& mask) <<< UInt8.ofNat (8 - bits * (k + 1)))) 0)

def reducedBitDepth8OrLess (i : Img) : Option Img :=
  if i.ihdr.depth ≠ 8 ∨ i.ihdr.ct.channels ≠ 1 then none else
  let minBits : Option Nat :=
    match i.ihdr.ct with
    | .indexed p => if p.length ≤ 2 then some 1 else if p.length ≤ 4 then some 2 else if p.length ≤ 16 then some 4 else none
    | _ => grayMinBits i.data
  match minBits, i.scanLines false with
  | some mb, some lines =>
    let data := lines.flatMap fun (_, line, _, _) => (chunks (8 / mb) line).map (packLow mb)
    let ct := match i.ihdr.ct with
      | .gray (some trans) =>
        let reduced := (trans % 256) / 2 ^ (8 - mb)
        .gray (if trans = replicateBits reduced mb then some reduced else none)
      | ct => ct
    some ⟨{ i.ihdr with ct := ct, depth := mb }, data⟩
  | _, _ => none

/-! ## 1/2/4 → 8 -/

def expandByte (depth : Nat) (isGray : Bool) (b : UInt8) : Bytes :=
  let mask := UInt8.ofNat (2 ^ depth - 1)
  (List.range (8 / depth)).map fun k =>
    let v := rotl8 b (depth * (k + 1)) &&& mask
    if isGray then UInt8.ofNat (replicateBits v.toNat depth) else v

def expandedBitDepthTo8 (i : Img) : Option Img :=
  let depth := i.ihdr.depth
  if depth ≥ 8 ∨ depth = 0 then none else
  let isGray := match i.ihdr.ct with | .gray _ => true | _ => false
  match i.scanLines false with
  | none => none
  | some lines =>
    let data := lines.flatMap fun (_, line, _, px) => (line.flatMap (expandByte depth isGray)).take px
    let ct := match i.ihdr.ct with
      | .gray (some t) => .gray (some (replicateBits t depth))
      | ct => ct
    some ⟨{ i.ihdr with ct := ct, depth := 8 }, data⟩

/-! ## colour type (color.rs) -/

/-- one pixel of `bd`-byte samples has r = g = b -/
def isGrayPx (bd : Nat) (p : Bytes) : Bool :=
  if bd = 1 then p.getD 0 0 = p.getD 1 0 ∧ p.getD 1 0 = p.getD 2 0
  else (p.take 2 = (p.drop 2).take 2) ∧ ((p.drop 2).take 2 = (p.drop 4).take 2)

/-- colour type after RGB(A) → gray(+alpha): the key is carried over when it is gray itself -/
def grayCtOf : ColorType → ColorType
  | .rgb t => .gray (match t with
                     | some (r, g, b) => if r = g ∧ g = b then some r else none
                     | none => none)
  | _ => .grayAlpha

def reducedRgbToGrayscale (i : Img) : Option Img :=
  if !i.ihdr.ct.isRgb then none else
  let bd := i.bytesPerChannel
  let bpp := i.channelsPerPixel * bd
  let pxs := chunksExact bpp i.data
  if pxs.all (isGrayPx bd) then
    some ⟨{ i.ihdr with ct := grayCtOf i.ihdr.ct }, pxs.flatMap (·.drop (2 * bd))⟩
  else none

/-- `build_palette`: first-occurrence order; `none` when a 257th distinct pixel shows up -/
def buildPalette : List Bytes → List Bytes → Bytes → Option (List Bytes × Bytes)
  | [], pal, acc => some (pal, acc.reverse)
  | px :: rest, pal, acc =>
    match pal.idxOf? px with
    | some idx => buildPalette rest pal (UInt8.ofNat idx :: acc)
    | none =>
      if pal.length = 256 then none
      else buildPalette rest (pal ++ [px]) (UInt8.ofNat pal.length :: acc)

/-- the RGBA8 palette entry made from one stored 8-bit pixel (`reduced_to_indexed`, per colour type) -/
def paletteEntry (ct : ColorType) (p : Bytes) : Rgba :=
  match ct with
  | .gray t =>
    let tp : Option UInt8 := t.map UInt8.ofNat
    let g := p.getD 0 0
    ⟨g, g, g, if some g ≠ tp then 255 else 0⟩
  | .rgb t =>
    let tp : Option (UInt8 × UInt8 × UInt8) := t.map fun (r, g, b) => (UInt8.ofNat r, UInt8.ofNat g, UInt8.ofNat b)
    let c := (p.getD 0 0, p.getD 1 0, p.getD 2 0)
    ⟨c.1, c.2.1, c.2.2, if some c ≠ tp then 255 else 0⟩
  | .grayAlpha => let g := p.getD 0 0; ⟨g, g, g, p.getD 1 0⟩
  | .rgba => ⟨p.getD 0 0, p.getD 1 0, p.getD 2 0, p.getD 3 0⟩
  | .indexed _ => ⟨0, 0, 0, 255⟩      -- not reached: indexed input is refused

def reducedToIndexed (i : Img) (allowGrayscale : Bool) : Option Img :=
  if i.ihdr.depth ≠ 8 then none else
  if i.ihdr.ct.isIndexed then none else
  if !allowGrayscale ∧ i.ihdr.ct.isGray then none else
  let pxs := chunksExact i.ihdr.ct.channels i.data
  match buildPalette pxs [] [] with
  | none => none
  | some (pmap, raw) =>
    some ⟨{ i.ihdr with ct := .indexed (pmap.map (paletteEntry i.ihdr.ct)) }, raw⟩

def indexedMaxDiff : Nat := 20000

def blackenTransparent (p : List Rgba) : List Rgba :=
  p.map fun c => if c.a = 0 then ⟨0, 0, 0, c.a⟩ else c

def indexedToChannels (i : Img) (allowGrayscale optimizeAlpha : Bool) : Option Img :=
  if i.ihdr.depth ≠ 8 then none else
  match i.ihdr.ct with
  | .indexed p0 =>
    let p := if optimizeAlpha then blackenTransparent p0 else p0
    let isGray := allowGrayscale && p.all fun c => c.r = c.g ∧ c.g = c.b
    let hasAlpha := p.any fun c => c.a ≠ 255
    let ct : ColorType := match isGray, hasAlpha with
      | false, true => .rgba | false, false => .rgb none
      | true, true => .grayAlpha | true, false => .gray none
    let outSize := ct.channels * i.data.length
    if outSize - i.data.length > indexedMaxDiff then none else
    let black : Rgba := ⟨0, 0, 0, 255⟩
    let data := i.data.flatMap fun b =>
      let c := p.getD b.toNat black
      let all := [c.r, c.g, c.b, c.a]
      (all.drop (if isGray then 2 else 0)).take ((if hasAlpha then 4 else 3) - (if isGray then 2 else 0))
    some ⟨{ i.ihdr with ct := ct }, data⟩
  | _ => none

/-! ## alpha (alpha.rs) -/

def cleanedAlphaChannel (i : Img) : Option Img :=
  if !i.ihdr.ct.hasAlpha then none else
  let bd := i.bytesPerChannel
  let bpp := i.channelsPerPixel * bd
  let colored := bpp - bd
  some ⟨i.ihdr, (chunksExact bpp i.data).flatMap fun px =>
    if (px.drop colored).all (· = 0) then List.replicate bpp 0 else px⟩

def reducedAlphaChannel (i : Img) (optimizeAlpha : Bool) : Option Img :=
  if !i.ihdr.ct.hasAlpha then none else
  let bd := i.bytesPerChannel
  let bpp := i.channelsPerPixel * bd
  let colored := bpp - bd
  let pxs := chunksExact bpp i.data
  let transparent (px : Bytes) : Bool := (px.drop colored).all (· = 0)
  -- first loop: (ok, has_transparency, used_colors)
  let scan := pxs.foldl (fun (st : Bool × Bool × List UInt8) px =>
      if !st.1 then st else
      if optimizeAlpha && transparent px then (true, true, st.2.2)
      else if (px.drop colored).any (· ≠ 255) then (false, st.2.1, st.2.2)
      else if optimizeAlpha && (px.take colored).all (· = px.getD 0 0) then (true, st.2.1, px.getD 0 0 :: st.2.2)
      else st) (true, false, [])
  if !scan.1 then none else
  let used := scan.2.2
  let unusedOf (cands : List UInt8) : Option UInt8 := cands.find? fun v => !used.contains v
  let trns : Option (Option UInt8) :=       -- outer none = failure
    if scan.2.1 then
      let first := match i.ihdr.ct with
        | .grayAlpha => unusedOf [0x00, 0xFF, 0x55, 0xAA]
        | _ => none
      match first.or (unusedOf ((List.range 256).map UInt8.ofNat)) with
      | some v => some (some v)
      | none => none
    else some none
  match trns with
  | none => none
  | some tp =>
    let data := pxs.flatMap fun px =>
      match tp with
      | some t => if transparent px then List.replicate colored t else px.take colored
      | none => px.take colored
    let t16 : Option Nat := tp.map fun t => if i.ihdr.depth = 16 then t.toNat * 256 + t.toNat else t.toNat
    let ct : ColorType := match i.ihdr.ct with
      | .grayAlpha => .gray t16
      | _ => .rgb (t16.map fun t => (t, t, t))
    some ⟨{ i.ihdr with ct := ct }, data⟩

/-! ## palette (palette.rs) -/

/-- one iteration of the condensing loop of `reduced_palette` over a used index `k`:
    state = (condensed palette, byte map as association list, did_change) -/
def palStep (palette : List Rgba) (optimizeAlpha : Bool)
    (st : List Rgba × List (Nat × Nat) × Bool) (k : Nat) : List Rgba × List (Nat × Nat) × Bool :=
  let black : Rgba := ⟨0, 0, 0, 255⟩
  let c0 := palette.getD k black
  let c := if optimizeAlpha && c0.a = 0 then ⟨0, 0, 0, c0.a⟩ else c0
  let (set', idx) := match st.1.idxOf? c with
    | some j => (st.1, j)
    | none => (st.1 ++ [c], st.1.length)
  (set', (k, idx) :: st.2.1, st.2.2 || (idx % 256 ≠ k))

def reducedPalette (i : Img) (optimizeAlpha : Bool) : Option Img :=
  if i.ihdr.depth ≠ 8 then none else
  match i.ihdr.ct with
  | .indexed palette =>
    let usedIdx := (List.range 256).filter fun k => i.data.contains (UInt8.ofNat k)
    let st := usedIdx.foldl (palStep palette optimizeAlpha) ([], [], false)
    let condensed := st.1
    let bmap := st.2.1
    let mapByte (b : UInt8) : UInt8 := UInt8.ofNat ((bmap.lookup b.toNat).getD 0)
    if st.2.2 then some ⟨{ i.ihdr with ct := .indexed condensed }, i.data.map mapByte⟩
    else if condensed.length ≠ palette.length then some ⟨{ i.ihdr with ct := .indexed condensed }, i.data⟩
    else none
  | _ => none

/-- `most_popular_edge_color` -/
def mostPopularEdgeColor (numColors : Nat) (i : Img) : Option (Option Nat) :=   -- outer none: scan_lines failed
  match i.scanLines false with
  | none => none
  | some lines =>
    let edge : Bytes := lines.flatMap fun (_, line, _, _) =>
      if line.length ≥ 2 then [line.getD 0 0, line.getD (line.length - 1) 0] else []
    let counts : List Nat := (List.range 256).map fun k => edge.count (UInt8.ofNat k)
    -- `max_by_key` over the first `numColors` counts returns the last maximum
    let best := ((counts.take numColors).zipIdx.foldl (fun (acc : Nat × Nat) (v, k) => if v ≥ acc.1 then (v, k) else acc) (0, 0))
    let maxEqual := counts.count best.1
    some (if maxEqual > 1 then none else some best.2)

def colorVal (c : Rgba) : Int :=
  let a : Int := c.a.toNat
  ((a / 2 * 2) * 262144) + (a % 2) - (c.r.toNat : Int) * 299 - (c.g.toNat : Int) * 587 - (c.b.toNat : Int) * 114

/-- the enumerated palette `[(0, p0), (1, p1), …]` -/
def enumeratedPalette (palette : List Rgba) : List (Nat × Rgba) := palette.zipIdx.map fun (c, k) => (k, c)

/-- `sorted_palette`'s new order: the kept first entry (if any), then the rest by `colorVal` (stable) -/
def sortedFinal (en : List (Nat × Rgba)) (keepFirst : Option Nat) : List (Nat × Rgba) :=
  let fr : Option (Nat × Rgba) × List (Nat × Rgba) := match keepFirst with
    | some f => (en[f]?, en.eraseIdx f)
    | none => (none, en)
  let sorted := fr.2.mergeSort fun a b => colorVal a.2 ≤ colorVal b.2
  match fr.1 with
  | some f => f :: sorted
  | none => sorted

def sortedPalette (i : Img) : Option Img :=
  if i.ihdr.depth ≠ 8 then none else
  match i.ihdr.ct with
  | .indexed palette =>
    if palette.length ≤ 1 then none else
    match mostPopularEdgeColor palette.length i with
    | none => none
    | some keepFirst =>
      let final := sortedFinal (enumeratedPalette palette) keepFirst
      let remapping := final.map (·.1)
      if remapping.zipIdx.all (fun (v, k) => v = k) then none else
      let mapByte (b : UInt8) : UInt8 := UInt8.ofNat ((remapping.idxOf? b.toNat).getD 0)
      some ⟨{ i.ihdr with ct := .indexed (final.map (·.2)) }, i.data.map mapByte⟩
  | _ => none

/-! ## the two steps shared by the co-occurrence palette sorters (`sorted_palette_mzeng`, `_battiato`) -/

/-- `most_popular_color`: (index, count) of the most frequent value among the first `numColors`
    (the last one on ties, as `max_by_key` returns); `(0, 0)` when there is none -/
def mostPopularColor (numColors : Nat) (data : Bytes) : Nat × Nat :=
  let counts : List Nat := (List.range 256).map fun k => data.count (UInt8.ofNat k)
  ((counts.take numColors).zipIdx.foldl
    (fun (acc : Option (Nat × Nat)) (p : Nat × Nat) =>
      match acc with
      | none => some (p.2, p.1)
      | some b => if p.1 ≥ b.2 then some (p.2, p.1) else acc) none).getD (0, 0)

/-- `apply_most_popular_color`: bring the most popular colour (if it covers at least 15 % of the
    pixels) to the front by rotating - after reversing when it sits in the second half.
    `none` = the `unwrap` on `position` panics (the colour is not in the remapping). -/
def applyMostPopularColor (data : Bytes) (remapping : List Nat) : Option (List Nat) :=
  let mp := mostPopularColor remapping.length data
  if mp.2 < data.length * 3 / 20 then some remapping else
  match remapping.idxOf? mp.1 with
  | none => none
  | some firstIdx =>
    if firstIdx ≥ remapping.length / 2 then some (remapping.reverse.rotateRight (firstIdx + 1))
    else some (remapping.rotateLeft firstIdx)

/-- the `byte_map` loop of `apply_palette_reorder`: `byte_map[v] = i as u8` for every `(i, v)` of the
    remapping in order (`none` = index out of the 256-entry table) -/
def reorderByteMap (remapping : List Nat) : Option (List Nat) :=
  remapping.zipIdx.foldlM (fun (m : List Nat) (p : Nat × Nat) =>
    if p.1 < 256 then some (m.set p.1 (p.2 % 256)) else none) (List.replicate 256 0)

/-- `apply_palette_reorder`: outer `none` = panic (an entry beyond the palette or the table),
    inner `none` = "nothing changed" -/
def applyPaletteReorder (i : Img) (remapping : List Nat) : Option (Option Img) :=
  match i.ihdr.ct with
  | .indexed palette =>
    if remapping.zipIdx.all (fun (v, k) => v = k) then some none else
    if !(remapping.all fun v => decide (v < palette.length)) then none else
    match reorderByteMap remapping with
    | some byteMap =>
      some (some ⟨{ i.ihdr with ct := .indexed (remapping.map fun v => palette.getD v ⟨0, 0, 0, 255⟩) },
        i.data.map fun b => UInt8.ofNat (byteMap.getD b.toNat 0)⟩)
    | none => none
  | _ => some none

/-- a co-occurrence sorter after its order has been computed -/
def reorderWith (i : Img) (order : List Nat) : Option (Option Img) :=
  match applyMostPopularColor i.data order with
  | none => none
  | some r => applyPaletteReorder i r

end OxiModel

import OxiModel.Basic
/-
  Model of the final size decision (/repo/src/lib.rs: `is_fully_optimized`, the tail of
  `optimize_from_memory` and of `optimize`, the acceptance test of `optimize_raw`, the frame rule
  of `recompress_frames`).
-/
namespace OxiModel

def isFullyOptimized (originalSize optimizedSize : Nat) (force : Bool) : Bool :=
  decide (originalSize ≤ optimizedSize) && !force

/-- `optimize_from_memory`: what is returned given the candidate output of `optimize_png` -/
def finalMemory (input candidate : Bytes) (force : Bool) : Bytes :=
  if isFullyOptimized input.length candidate.length force then input else candidate

inductive Dest
  | inPlace      -- `OutFile::Path { path: None }` or a path equal to the input path
  | otherPath    -- a different destination file
  | stdout
  | pretend      -- `OutFile::None`
  deriving DecidableEq, Repr

inductive FileAction
  | noWrite                 -- early return / pretend: nothing is created or modified
  | write (bytes : Bytes)   -- destination (file or stdout) receives exactly these bytes
  deriving DecidableEq, Repr

/-- `optimize`: what happens to the destination -/
def finalFile (input candidate : Bytes) (force : Bool) (dest : Dest) : FileAction :=
  if isFullyOptimized input.length candidate.length force then
    match dest with
    | .inPlace => .noWrite
    | .pretend => .noWrite
    | _ => .write input
  else
    match dest with
    | .pretend => .noWrite
    | _ => .write candidate

/-- acceptance test at the end of `optimize_raw` -/
def accepted (dataIsCompressed : Bool) (estimated : Nat) (maxSize : Option Nat) : Bool :=
  dataIsCompressed && (match maxSize with | none => true | some m => decide (estimated < m))

/-- A chain of runs: each run is characterised by the candidate its optimiser produces for the
    current file contents and by its `force` flag. -/
def chain (input : Bytes) : List ((Bytes → Bytes) × Bool) → Bytes
  | [] => input
  | (opt, force) :: rest => chain (finalMemory input (opt input) force) rest

/-- number of runs in a chain that changed the file -/
def changes (input : Bytes) : List ((Bytes → Bytes) × Bool) → Nat
  | [] => 0
  | (opt, force) :: rest =>
    let out := finalMemory input (opt input) force
    (if out = input then 0 else 1) + changes out rest

end OxiModel

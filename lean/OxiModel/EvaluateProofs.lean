import OxiModel.Evaluate
/-
  Helper lemmas for C06 / C17: order facts about `cmp_key`, the invariant of the evaluator's
  transition system, `min_by_key` characterisation.
-/
namespace OxiModel

/-! ### `cmp_key` is a strict total order on trials with distinct (filter, nth) -/

theorem keyLt_irrefl (a : Trial) : ¬ keyLt a a := by
  unfold keyLt; omega

theorem keyLt_trans {a b c : Trial} (h1 : keyLt a b) (h2 : keyLt b c) : keyLt a c := by
  unfold keyLt at *; omega

theorem keyLt_asymm {a b : Trial} (h1 : keyLt a b) : ¬ keyLt b a := by
  unfold keyLt at *; omega

theorem keyLt_total (a b : Trial) : keyLt a b ∨ keyEq a b ∨ keyLt b a := by
  unfold keyLt keyEq; omega

theorem keyLe_total (a b : Trial) : keyLe a b ∨ keyLe b a := by
  unfold keyLe; rcases keyLt_total a b with h | h | h
  · exact Or.inl (Or.inl h)
  · exact Or.inl (Or.inr h)
  · exact Or.inr (Or.inl h)

theorem keyLe_refl (a : Trial) : keyLe a a := Or.inr ⟨rfl, rfl, rfl, rfl⟩

theorem keyLe_trans {a b c : Trial} (h1 : keyLe a b) (h2 : keyLe b c) : keyLe a c := by
  unfold keyLe keyLt keyEq at *; omega

theorem not_keyLt_iff_keyLe {a b : Trial} : ¬ keyLt a b ↔ keyLe b a := by
  unfold keyLe keyLt keyEq; omega

theorem keyLe_est {a b : Trial} (h : keyLe a b) : a.est ≤ b.est := by
  unfold keyLe keyLt keyEq at h; omega

/-- two trials with the same key that differ are told apart by (filter, nth) -/
def distinctKeys (l : List Trial) : Prop :=
  ∀ a ∈ l, ∀ b ∈ l, a.filter = b.filter → a.nth = b.nth → a = b

theorem keyLe_antisymm_of_distinct {l : List Trial} (hd : distinctKeys l) {a b : Trial}
    (ha : a ∈ l) (hb : b ∈ l) (h1 : keyLe a b) (h2 : keyLe b a) : a = b := by
  apply hd a ha b hb <;> (unfold keyLe keyLt keyEq at *; omega)

/-! ### `min_by_key` -/

theorem foldl_min_mem (ts : List Trial) (t : Trial) :
    (ts.foldl (fun best c => if keyLt c best then c else best) t) = t ∨
    (ts.foldl (fun best c => if keyLt c best then c else best) t) ∈ ts := by
  induction ts generalizing t with
  | nil => simp
  | cons c ts ih =>
    simp only [List.foldl_cons]
    by_cases hc : keyLt c t
    · simp only [hc, if_true]
      rcases ih c with h | h
      · right; rw [h]; exact List.mem_cons_self
      · right; exact List.mem_cons_of_mem _ h
    · simp only [hc, if_false]
      rcases ih t with h | h
      · left; exact h
      · right; exact List.mem_cons_of_mem _ h

theorem foldl_min_le (ts : List Trial) (t : Trial) :
    keyLe (ts.foldl (fun best c => if keyLt c best then c else best) t) t ∧
    ∀ c ∈ ts, keyLe (ts.foldl (fun best c => if keyLt c best then c else best) t) c := by
  induction ts generalizing t with
  | nil => simp [keyLe_refl]
  | cons c ts ih =>
    simp only [List.foldl_cons]
    have ⟨h1, h2⟩ := ih (if keyLt c t then c else t)
    by_cases hc : keyLt c t
    · simp only [hc, if_true] at h1 h2 ⊢
      refine ⟨keyLe_trans h1 (Or.inl hc), ?_⟩
      intro d hd
      rcases List.mem_cons.mp hd with rfl | hd
      · exact h1
      · exact h2 d hd
    · simp only [hc, if_false] at h1 h2 ⊢
      refine ⟨h1, ?_⟩
      intro d hd
      rcases List.mem_cons.mp hd with rfl | hd
      · exact keyLe_trans h1 (not_keyLt_iff_keyLe.mp hc)
      · exact h2 d hd

theorem minByKey_mem {l : List Trial} {m : Trial} (h : minByKey l = some m) : m ∈ l := by
  cases l with
  | nil => simp [minByKey] at h
  | cons t ts =>
    simp only [minByKey, Option.some.injEq] at h
    rcases foldl_min_mem ts t with h' | h'
    · rw [← h, h']; exact List.mem_cons_self
    · rw [← h]; exact List.mem_cons_of_mem _ h'

theorem minByKey_le {l : List Trial} {m : Trial} (h : minByKey l = some m) :
    ∀ c ∈ l, keyLe m c := by
  cases l with
  | nil => simp [minByKey] at h
  | cons t ts =>
    simp only [minByKey, Option.some.injEq] at h
    intro c hc
    have ⟨h1, h2⟩ := foldl_min_le ts t
    rw [h] at h1 h2
    rcases List.mem_cons.mp hc with rfl | hc
    · exact h1
    · exact h2 c hc

theorem minByKey_isSome {l : List Trial} (h : l ≠ []) : ∃ m, minByKey l = some m := by
  cases l with
  | nil => exact absurd rfl h
  | cons t ts => exact ⟨_, rfl⟩

/-- `min_by_key` returns *the* minimum: any element that is below all others is the result. -/
theorem minByKey_eq_of_min {l : List Trial} (hd : distinctKeys l) {m : Trial} (hm : m ∈ l)
    (hmin : ∀ c ∈ l, keyLe m c) : minByKey l = some m := by
  obtain ⟨m', h'⟩ := minByKey_isSome (List.ne_nil_of_mem hm)
  have hm' := minByKey_mem h'
  have : m' = m := keyLe_antisymm_of_distinct hd hm' hm (minByKey_le h' m hm) (hmin m' hm')
  rw [h', this]

/-! ### sequential fold picks the same candidate -/

theorem foldl_seq_mem (ts : List Trial) (t : Trial) :
    (ts.foldl (fun prev c => if keyLt prev c then prev else c) t) = t ∨
    (ts.foldl (fun prev c => if keyLt prev c then prev else c) t) ∈ ts := by
  induction ts generalizing t with
  | nil => simp
  | cons c ts ih =>
    simp only [List.foldl_cons]
    by_cases hc : keyLt t c
    · simp only [hc, if_true]
      rcases ih t with h | h
      · left; exact h
      · right; exact List.mem_cons_of_mem _ h
    · simp only [hc, if_false]
      rcases ih c with h | h
      · right; rw [h]; exact List.mem_cons_self
      · right; exact List.mem_cons_of_mem _ h

theorem foldl_seq_le (ts : List Trial) (t : Trial) :
    keyLe (ts.foldl (fun prev c => if keyLt prev c then prev else c) t) t ∧
    ∀ c ∈ ts, keyLe (ts.foldl (fun prev c => if keyLt prev c then prev else c) t) c := by
  induction ts generalizing t with
  | nil => simp [keyLe_refl]
  | cons c ts ih =>
    simp only [List.foldl_cons]
    have ⟨h1, h2⟩ := ih (if keyLt t c then t else c)
    by_cases hc : keyLt t c
    · simp only [hc, if_true] at h1 h2 ⊢
      refine ⟨h1, ?_⟩
      intro d hd
      rcases List.mem_cons.mp hd with rfl | hd
      · exact keyLe_trans h1 (Or.inl hc)
      · exact h2 d hd
    · simp only [hc, if_false] at h1 h2 ⊢
      refine ⟨keyLe_trans h1 (not_keyLt_iff_keyLe.mp hc), ?_⟩
      intro d hd
      rcases List.mem_cons.mp hd with rfl | hd
      · exact h1
      · exact h2 d hd

theorem seqBest_eq_minByKey {l : List Trial} (hd : distinctKeys l) : seqBest l = minByKey l := by
  cases l with
  | nil => rfl
  | cons t ts =>
    have hmem : (ts.foldl (fun prev c => if keyLt prev c then prev else c) t) ∈ t :: ts := by
      rcases foldl_seq_mem ts t with h | h
      · rw [h]; exact List.mem_cons_self
      · exact List.mem_cons_of_mem _ h
    have hmin : ∀ c ∈ t :: ts, keyLe (ts.foldl (fun prev c => if keyLt prev c then prev else c) t) c := by
      intro c hc
      have ⟨h1, h2⟩ := foldl_seq_le ts t
      rcases List.mem_cons.mp hc with rfl | hc
      · exact h1
      · exact h2 c hc
    rw [minByKey_eq_of_min hd hmem hmin]
    rfl

/-! ### the bound -/

theorem fits_lower {b : Bound} {n k : Nat} (h1 : fits b k) (h2 : k ≤ n) : fits (lower b n) k := by
  cases b with
  | none => simp [lower, fits]; exact h2
  | some m => simp [lower, fits] at *; omega

/-- `b` admits at most what `b0` admits -/
def leB (b b0 : Bound) : Prop := ∀ n, fits b n → fits b0 n

theorem leB_refl (b : Bound) : leB b b := fun _ h => h

theorem leB_lower {b b0 : Bound} (h : leB b b0) (n : Nat) : leB (lower b n) b0 := by
  intro k hk
  apply h
  cases b with
  | none => trivial
  | some m => simp [lower, fits] at *; omega

/-! ### invariant of the transition system -/

/-- `M` is the minimum (under `cmp_key`) of the trials admitted by the initial bound. -/
structure IsBest (bound0 : Bound) (trials : List Trial) (M : Trial) : Prop where
  mem : M ∈ trials
  fits0 : fits bound0 M.idat
  least : ∀ t ∈ trials, fits bound0 t.idat → keyLe M t

structure EvInv (bound0 : Bound) (trials : List Trial) (M : Trial) (s : EvState) : Prop where
  pend_sub : ∀ t ∈ s.pending, t ∈ trials
  infl_sub : ∀ p ∈ s.inflight, p.1 ∈ trials
  pub_sub : ∀ t ∈ s.published, t ∈ trials ∧ fits bound0 t.idat
  bound_le : leB s.bound bound0
  infl_le : ∀ p ∈ s.inflight, leB p.2 bound0
  bound_adm : fits s.bound M.idat
  infl_adm : ∀ p ∈ s.inflight, fits p.2 M.idat
  alive : M ∈ s.pending ∨ (∃ b, (M, b) ∈ s.inflight) ∨ M ∈ s.published

theorem evInv_init (bound0 : Bound) (trials : List Trial) (M : Trial) (hM : IsBest bound0 trials M) :
    EvInv bound0 trials M (evInit bound0 trials) := by
  refine ⟨fun t h => h, ?_, ?_, leB_refl _, ?_, hM.fits0, ?_, Or.inl hM.mem⟩ <;> simp [evInit]

theorem evInv_step {bound0 : Bound} {trials : List Trial} {M : Trial} (hM : IsBest bound0 trials M)
    {s s' : EvState} (hinv : EvInv bound0 trials M s) (hstep : EvStep s s') :
    EvInv bound0 trials M s' := by
  cases hstep with
  | read t h =>
    refine ⟨?_, ?_, hinv.pub_sub, hinv.bound_le, ?_, hinv.bound_adm, ?_, ?_⟩
    · intro x hx; exact hinv.pend_sub x (List.mem_of_mem_erase hx)
    · intro p hp
      rcases List.mem_cons.mp hp with rfl | hp
      · exact hinv.pend_sub _ h
      · exact hinv.infl_sub p hp
    · intro p hp
      rcases List.mem_cons.mp hp with rfl | hp
      · exact hinv.bound_le
      · exact hinv.infl_le p hp
    · intro p hp
      rcases List.mem_cons.mp hp with rfl | hp
      · exact hinv.bound_adm
      · exact hinv.infl_adm p hp
    · rcases hinv.alive with h1 | h1 | h1
      · by_cases hx : M = t
        · right; left; exact ⟨s.bound, by rw [hx]; exact List.mem_cons_self⟩
        · left; exact (List.mem_erase_of_ne hx).mpr h1
      · right; left; obtain ⟨b, hb⟩ := h1; exact ⟨b, List.mem_cons_of_mem _ hb⟩
      · right; right; exact h1
  | finishOk t b h hf =>
    have ht : t ∈ trials := hinv.infl_sub _ h
    have hfit0 : fits bound0 t.idat := hinv.infl_le _ h _ hf
    have hMt : keyLe M t := hM.least t ht hfit0
    have hle : M.idat ≤ t.est := by
      have := keyLe_est hMt
      unfold Trial.est at *; omega
    refine ⟨hinv.pend_sub, ?_, ?_, leB_lower hinv.bound_le _, ?_, fits_lower hinv.bound_adm hle, ?_, ?_⟩
    · intro p hp; exact hinv.infl_sub p (List.mem_of_mem_erase hp)
    · intro x hx
      rcases List.mem_cons.mp hx with rfl | hx
      · exact ⟨ht, hfit0⟩
      · exact hinv.pub_sub x hx
    · intro p hp; exact hinv.infl_le p (List.mem_of_mem_erase hp)
    · intro p hp; exact hinv.infl_adm p (List.mem_of_mem_erase hp)
    · rcases hinv.alive with h1 | h1 | h1
      · left; exact h1
      · obtain ⟨b', hb'⟩ := h1
        by_cases hx : (M, b') = (t, b)
        · right; right
          have : M = t := by injection hx
          rw [this]; exact List.mem_cons_self
        · right; left; exact ⟨b', (List.mem_erase_of_ne hx).mpr hb'⟩
      · right; right; exact List.mem_cons_of_mem _ h1
  | finishPruned t b h hf =>
    refine ⟨hinv.pend_sub, ?_, hinv.pub_sub, hinv.bound_le, ?_, hinv.bound_adm, ?_, ?_⟩
    · intro p hp; exact hinv.infl_sub p (List.mem_of_mem_erase hp)
    · intro p hp; exact hinv.infl_le p (List.mem_of_mem_erase hp)
    · intro p hp; exact hinv.infl_adm p (List.mem_of_mem_erase hp)
    · rcases hinv.alive with h1 | h1 | h1
      · left; exact h1
      · obtain ⟨b', hb'⟩ := h1
        by_cases hx : (M, b') = (t, b)
        · exfalso
          have h1 : M = t := by injection hx
          have h2 : b' = b := by injection hx
          apply hf
          rw [← h1, ← h2]
          exact hinv.infl_adm _ hb'
        · right; left; exact ⟨b', (List.mem_erase_of_ne hx).mpr hb'⟩
      · right; right; exact h1

theorem evInv_reach {bound0 : Bound} {trials : List Trial} {M : Trial} (hM : IsBest bound0 trials M)
    {s : EvState} (hr : EvReach (evInit bound0 trials) s) : EvInv bound0 trials M s := by
  induction hr with
  | refl => exact evInv_init bound0 trials M hM
  | step _ hstep ih => exact evInv_step hM ih hstep

end OxiModel

import OxiModel.ScanLines
/-
  Helper lemmas for C18: `raw_data_size` is the specification's data size.
-/
namespace OxiModel
open Spec

theorem sum_map_replicate (n a : Nat) (p : Option Nat) (px : Nat) :
    ((List.replicate n (a, p, px)).map (·.1)).sum = n * a := by
  induction n with
  | zero => simp
  | succ n ih => simp [List.replicate_succ, ih, Nat.succ_mul]; omega

theorem dataSize_progressive (w h bpp : Nat) (hf : Bool) :
    Spec.dataSize w h bpp false hf = h * (rowBytes w bpp + (if hf then 1 else 0)) := by
  simp [Spec.dataSize, Spec.lineLens, sum_map_replicate]

theorem rawDataSize_progressive (w h bpp : Nat) :
    rawDataSize w h bpp false = Spec.dataSize w h bpp false true := by
  rw [dataSize_progressive]
  simp [rawDataSize, bitmapSize, rowBytes, Nat.mul_add, Nat.mul_comm]

/-- contribution of one pass to the specification's data size -/
def passSize (p w h bpp : Nat) (hf : Bool) : Nat :=
  let g := adam7.getD p ⟨0,0,1,1⟩
  let d := passDims g w h
  if d.1 = 0 then 0 else d.2 * (rowBytes d.1 bpp + (if hf then 1 else 0))

theorem dataSize_interlaced (w h bpp : Nat) (hf : Bool) :
    Spec.dataSize w h bpp true hf =
      passSize 0 w h bpp hf + passSize 1 w h bpp hf + passSize 2 w h bpp hf + passSize 3 w h bpp hf +
      passSize 4 w h bpp hf + passSize 5 w h bpp hf + passSize 6 w h bpp hf := by
  have hr : List.range 7 = [0,1,2,3,4,5,6] := by decide
  simp only [Spec.dataSize, Spec.lineLens, hr, Bool.not_true, Bool.false_eq_true, if_false,
    List.flatMap_cons, List.flatMap_nil, List.map_append, List.sum_append, List.append_nil, passSize]
  have key : ∀ p, (List.map (fun x => x.1)
      (match passDims (adam7.getD p ⟨0,0,1,1⟩) w h with
        | (pw, ph) => if pw = 0 then [] else
            List.replicate ph (rowBytes pw bpp + (if hf = true then 1 else 0), some (p + 1), pw))).sum =
      (if (passDims (adam7.getD p ⟨0,0,1,1⟩) w h).1 = 0 then 0
       else (passDims (adam7.getD p ⟨0,0,1,1⟩) w h).2 *
            (rowBytes (passDims (adam7.getD p ⟨0,0,1,1⟩) w h).1 bpp + (if hf = true then 1 else 0))) := by
    intro p
    cases hd : passDims (adam7.getD p ⟨0,0,1,1⟩) w h with
    | mk pw ph =>
      simp only
      split
      · simp
      · simp [sum_map_replicate]
  simp only [key]
  omega

theorem rawDataSize_interlaced (w h bpp : Nat) (hw : 1 ≤ w) :
    rawDataSize w h bpp true = Spec.dataSize w h bpp true true := by
  rw [dataSize_interlaced]
  simp only [passSize, adam7, List.getD_cons_zero, List.getD_cons_succ, passDims, passCount,
    rowBytes, rawDataSize, bitmapSize, Bool.not_true, Bool.false_eq_true, if_false, if_true]
  have e1 : (w + 8 - 1 - 0) / 8 = (w + 7) / 8 := by omega
  have e2 : (w + 8 - 1 - 4) / 8 = (w + 3) / 8 := by omega
  have e3 : (w + 4 - 1 - 0) / 4 = (w + 3) / 4 := by omega
  have e4 : (w + 4 - 1 - 2) / 4 = (w + 1) / 4 := by omega
  have e5 : (w + 2 - 1 - 0) / 2 = (w + 1) / 2 := by omega
  have e6 : (w + 2 - 1 - 1) / 2 = w / 2 := by omega
  have e7 : (w + 1 - 1 - 0) / 1 = w := by simp
  have f1 : (h + 8 - 1 - 0) / 8 = (h + 7) / 8 := by omega
  have f3 : (h + 8 - 1 - 4) / 8 = (h + 3) / 8 := by omega
  have f4 : (h + 4 - 1 - 0) / 4 = (h + 3) / 4 := by omega
  have f5 : (h + 4 - 1 - 2) / 4 = (h + 1) / 4 := by omega
  have f6 : (h + 2 - 1 - 0) / 2 = (h + 1) / 2 := by omega
  have f7 : (h + 2 - 1 - 1) / 2 = h / 2 := by omega
  rw [e1, e2, e3, e4, e5, e6, e7, f1, f3, f4, f5, f6, f7]
  have z1 : ¬ ((w + 7) / 8 = 0) := by omega
  have z3 : ¬ ((w + 3) / 4 = 0) := by omega
  have z5 : ¬ ((w + 1) / 2 = 0) := by omega
  have z7 : ¬ (w = 0) := by omega
  simp only [z1, z3, z5, z7, if_false]
  have c2 : ((w + 3) / 8 = 0) ↔ ¬ (w > 4) := by omega
  have c4 : ((w + 1) / 4 = 0) ↔ ¬ (w > 2) := by omega
  have c6 : (w / 2 = 0) ↔ ¬ (w > 1) := by omega
  by_cases h2 : w > 4 <;> by_cases h4 : w > 2 <;> by_cases h6 : w > 1 <;>
    simp only [c2, c4, c6, h2, h4, h6, not_true_eq_false, not_false_eq_true, if_true, if_false,
      Nat.mul_add, Nat.mul_one] <;>
    simp only [Nat.mul_comm] <;> omega

end OxiModel

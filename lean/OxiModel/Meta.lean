import OxiModel.Chunks
import OxiModel.Pipeline
/-
  Metadata handling around the optimiser (/repo/src/headers.rs): `preprocess_chunks`
  (colour-space metadata, APNG detection), `postprocess_chunks`, `srgb_rendering_intent`,
  `extract_icc` / `make_iccp` framing. Inflate / deflate of the profile are parameters (D1).
-/
namespace OxiModel

/-- the iCCP payload after the profile name and compression-method byte; `none` where
    `extract_icc` returns `None` before inflating -/
def iccpCompressed (data : Bytes) : Option Bytes :=
  match data.dropWhile (· ≠ 0) with
  | [] => none                       -- no terminator
  | _ :: rest =>                     -- `_` is the 0 terminator
    match rest with
    | [] => none
    | m :: z => if m ≠ 0 then none else some z

/-- `make_iccp` framing -/
def makeIccp (compressed : Bytes) : Chunk := ⟨nm "iCCP", [0x69, 0x63, 0x63, 0, 0] ++ compressed⟩

def knownSrgbIds : List Bytes := [
  [0x29,0xf8,0x3d,0xde,0xaf,0xf2,0x55,0xae,0x78,0x42,0xfa,0xe4,0xca,0x83,0x39,0x0d],
  [0xc9,0x5b,0xd6,0x37,0xe9,0x5d,0x8a,0x3b,0x0d,0xf3,0x8f,0x99,0xc1,0x32,0x03,0x89],
  [0xfc,0x66,0x33,0x78,0x37,0xe2,0x88,0x6b,0xfd,0x72,0xe9,0x83,0x82,0x28,0xf1,0xb8],
  [0x34,0x56,0x2a,0xbf,0x99,0x4c,0xcd,0x06,0x6d,0x2c,0x57,0x21,0xd0,0xd6,0x8c,0x5d]]

/-- `srgb_rendering_intent` -/
def srgbRenderingIntent (icc : Bytes) : Option UInt8 :=
  match icc[67]? with
  | none => none
  | some intent =>
    if icc.length < 100 then none else
    let id := (icc.drop 84).take 16
    if knownSrgbIds.contains id then some intent
    else if id = List.replicate 16 0 then
      let c := Spec.crc32 icc
      if (c = 0x5d5129ce ∧ icc.length = 3024) ∨ (c = 0x182ea552 ∧ icc.length = 3144) ∨
         (c = 0xf29e526d ∧ icc.length = 3144) then some intent else none
    else none

structure MetaOpts where
  strip : StripChunks
  idatRecoding : Bool
  grayscale : Bool
  interlace : Option Bool
  bitDepth : Bool
  colorType : Bool
  palette : Bool
  deriving Repr

def hasChunk (aux : List Chunk) (name : Bytes) : Bool := aux.any fun c => c.name = name

/-- first half of `preprocess_chunks`: the colour-space chunks. Returns the new chunk list and
    `allow_grayscale`. `inflateIcc` is what the profile inflates to (`none`: undecodable within the
    size guess); `recompress icc limit` is the main deflater with a size limit. -/
def iccStage (aux : List Chunk) (o : MetaOpts) (inflateIcc : Bytes → Option Bytes)
    (recompress : Bytes → Nat → Option Bytes) : List Chunk × Bool :=
  let hasSrgb := hasChunk aux (nm "sRGB")
  match aux.findIdx? (fun c => c.name = nm "iCCP") with
  | none => (aux, !hasSrgb || o.strip ≠ .none)
  | some idx =>
    let mayReplace := o.strip ≠ .none && o.strip.keeps (nm "sRGB")
    if mayReplace && hasSrgb then (aux.eraseIdx idx, true)
    else
      let iccp := aux.getD idx default
      match (iccpCompressed iccp.data).bind inflateIcc with
      | none => (aux, false)
      | some icc =>
        match (if mayReplace then srgbRenderingIntent icc else none) with
        | some intent => (aux.set idx ⟨nm "sRGB", [intent]⟩, true)
        | none =>
          if o.idatRecoding then
            match recompress icc (iccp.data.length - 1) with
            | some z => (aux.set idx (makeIccp z), false)
            | none => (aux, false)
          else (aux, false)

/-- second half: the option adjustments -/
def finishOpts (aux : List Chunk) (allow : Bool) (o : MetaOpts) : MetaOpts :=
  let o := if !allow && o.grayscale then { o with grayscale := false } else o
  if hasChunk aux (nm "acTL") then
    { o with interlace := none, bitDepth := false, colorType := false, palette := false, grayscale := false }
  else o

/-- `preprocess_chunks` -/
def preprocessChunks (aux : List Chunk) (o : MetaOpts) (inflateIcc : Bytes → Option Bytes)
    (recompress : Bytes → Nat → Option Bytes) : List Chunk × MetaOpts :=
  let r := iccStage aux o inflateIcc recompress
  (r.1, finishOpts r.1 r.2 o)

/-- `postprocess_chunks` -/
def postprocessChunks (aux : List Chunk) (new orig : Ihdr) : List Chunk :=
  let aux := if orig.depth ≠ new.depth ∨ orig.ct ≠ new.ct then
      aux.filter fun c => !(c.name = nm "bKGD" || c.name = nm "sBIT" || c.name = nm "hIST")
    else aux
  if orig.ct.isGray ≠ new.ct.isGray then
    aux.filter fun c => !(c.name = nm "sRGB" || c.name = nm "iCCP")
  else aux

end OxiModel

import OxiModel.Basic
/-
  Image headers and the in-memory image (`IhdrData`, `PngImage` of /repo/src/headers.rs, png/mod.rs).
-/
namespace OxiModel

/-- RGBA8 palette entry -/
structure Rgba where
  r : UInt8
  g : UInt8
  b : UInt8
  a : UInt8
  deriving DecidableEq, Repr, Inhabited

inductive ColorType
  | gray (trns : Option Nat)                 -- transparent_shade : Option<u16>
  | rgb (trns : Option (Nat × Nat × Nat))    -- transparent_color : Option<RGB16>
  | indexed (palette : List Rgba)
  | grayAlpha
  | rgba
  deriving DecidableEq, Repr, Inhabited

namespace ColorType
def code : ColorType → Nat
  | gray _ => 0 | rgb _ => 2 | indexed _ => 3 | grayAlpha => 4 | rgba => 6
def channels : ColorType → Nat
  | gray _ => 1 | indexed _ => 1 | grayAlpha => 2 | rgb _ => 3 | rgba => 4
def isRgb : ColorType → Bool
  | rgb _ => true | rgba => true | _ => false
def isGray : ColorType → Bool
  | gray _ => true | grayAlpha => true | _ => false
def hasAlpha : ColorType → Bool
  | grayAlpha => true | rgba => true | _ => false
def hasTrns : ColorType → Bool
  | gray t => t.isSome | rgb t => t.isSome | _ => false
def isIndexed : ColorType → Bool
  | indexed _ => true | _ => false
end ColorType

structure Ihdr where
  width : Nat
  height : Nat
  ct : ColorType
  depth : Nat
  interlaced : Bool
  deriving DecidableEq, Repr, Inhabited

namespace Ihdr
/-- bits per pixel (`IhdrData::bpp`) -/
def bpp (h : Ihdr) : Nat := h.depth * h.ct.channels
end Ihdr

structure Img where
  ihdr : Ihdr
  data : Bytes
  deriving DecidableEq, Repr, Inhabited

namespace Img
def channelsPerPixel (i : Img) : Nat := i.ihdr.ct.channels
def bytesPerChannel (i : Img) : Nat := if i.ihdr.depth = 16 then 2 else 1
/-- the `bpp` in bytes that `filter_image` / `unfilter_image` use -/
def bppBytes (i : Img) : Nat := i.bytesPerChannel * i.channelsPerPixel
end Img

/-- depth legal for the colour type (PNG specification table) -/
def depthLegal (ct : ColorType) (d : Nat) : Bool :=
  match ct with
  | .gray _ => d = 1 || d = 2 || d = 4 || d = 8 || d = 16
  | .indexed _ => d = 1 || d = 2 || d = 4 || d = 8
  | _ => d = 8 || d = 16

/-! ## Line protocol: `<w> <h> <ct> <depth> <il> <palette rgba hex> <trns be16 hex> <data hex>` -/

def rgbaOfBytes : Bytes → List Rgba
  | r :: g :: b :: a :: rest => ⟨r, g, b, a⟩ :: rgbaOfBytes rest
  | _ => []

def bytesOfRgba (p : List Rgba) : Bytes := p.flatMap fun e => [e.r, e.g, e.b, e.a]

def parseColorType (code : Nat) (pal trns : Bytes) : Option ColorType :=
  match code with
  | 0 => some (.gray (if trns.length = 2 then some (readBE trns) else none))
  | 2 => some (.rgb (if trns.length = 6 then
            some (readBE (trns.take 2), readBE ((trns.drop 2).take 2), readBE (trns.drop 4)) else none))
  | 3 => some (.indexed (rgbaOfBytes pal))
  | 4 => some .grayAlpha
  | 6 => some .rgba
  | _ => none

def parseImg (args : List String) : Option Img :=
  match args with
  | [w, h, ct, d, il, pal, trns, data] =>
    match w.toNat?, h.toNat?, ct.toNat?, d.toNat?, il.toNat?, ofHex pal, ofHex trns, ofHex data with
    | some w, some h, some ct, some d, some il, some pal, some trns, some data =>
      match parseColorType ct pal trns with
      | some c => some ⟨⟨w, h, c, d, il = 1⟩, data⟩
      | none => none
    | _, _, _, _, _, _, _, _ => none
  | _ => none

def showImg (i : Img) : String :=
  let (pal, trns) : Bytes × Bytes := match i.ihdr.ct with
    | .gray (some t) => ([], be16 t)
    | .rgb (some (r, g, b)) => ([], be16 r ++ be16 g ++ be16 b)
    | .indexed p => (bytesOfRgba p, [])
    | _ => ([], [])
  s!"{i.ihdr.width} {i.ihdr.height} {i.ihdr.ct.code} {i.ihdr.depth} {if i.ihdr.interlaced then 1 else 0} {toHex pal} {toHex trns} {toHex i.data}"

end OxiModel

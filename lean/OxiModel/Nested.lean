/-
  Nested fork-join on a work-stealing pool, as oxipng uses rayon (lib.rs / evaluate.rs):
    * an *image task* (one `optimize` call run by a pool worker, e.g. an item of the CLI's par_iter)
      spawns evaluation jobs and waits for them in `while executed < nth { yield_local() }`
      - a COLLECTOR: while waiting it runs jobs of its own worker's queue only;
    * an *evaluation job* forks one sub-job per filter (`par_iter().for_each`) and waits in rayon's
      join - a FORKER: while waiting it runs local jobs or steals;
    * a *trial* (filter + compress) is PURE: it neither spawns nor waits.
  Workers keep a stack of started jobs: whatever a waiting job picks up runs on top of it and must
  finish before it resumes. Every job waits for its own children only.
-/
namespace OxiModel.Nest

inductive Kind | collector | forker | pure
  deriving DecidableEq, Repr

inductive St
  | unspawned
  | queued (w : Nat)              -- in worker w's queue
  | started (w : Nat) (t : Nat)   -- on worker w's stack since time t
  | finished
  deriving DecidableEq, Repr

/-- the static job forest -/
structure Forest where
  n : Nat
  parent : Nat → Option Nat
  kind : Nat → Kind
  /-- pure jobs have no children -/
  pureLeaf : ∀ j p, parent j = some p → kind p ≠ .pure
  /-- a parent has a smaller index than its children (the forest is well founded) -/
  parentLt : ∀ j p, parent j = some p → p < j

structure State where
  st : Nat → St
  clock : Nat

def started? (s : St) : Option (Nat × Nat) := match s with | .started w t => some (w, t) | _ => none

/-- `j` is the top of its worker's stack: no job started later on the same worker is unfinished -/
def isTop (s : State) (j w t : Nat) : Prop :=
  s.st j = .started w t ∧ ∀ k t', s.st k = .started w t' → t' ≤ t

/-- worker `w` may pick up new work: it is idle, or its top job is waiting (not pure) -/
def canTake (F : Forest) (s : State) (w : Nat) : Prop :=
  ∀ j t, isTop s j w t → F.kind j ≠ .pure

def setSt (s : State) (j : Nat) (x : St) : Nat → St := fun k => if k = j then x else s.st k

inductive Step (F : Forest) (workers : Nat) : State → State → Prop
  /-- a root task is handed to the pool (queued on some worker) -/
  | spawnRoot (s : State) (j w : Nat) (hj : j < F.n) (hw : w < workers) (hp : F.parent j = none)
      (hs : s.st j = .unspawned) : Step F workers s ⟨setSt s j (.queued w), s.clock⟩
  /-- the running (top) job spawns a child into its own worker's queue -/
  | spawn (s : State) (j p w t : Nat) (hj : j < F.n) (hp : F.parent j = some p) (hs : s.st j = .unspawned)
      (htop : isTop s p w t) : Step F workers s ⟨setSt s j (.queued w), s.clock⟩
  /-- worker `w` starts a queued job: from its own queue always; from another queue (steal) unless its
      top job is a collector (`yield_local` does not steal) -/
  | start (s : State) (j w w' : Nat) (hj : j < F.n) (hw : w < workers) (hq : s.st j = .queued w')
      (hcan : canTake F s w)
      (hsteal : w' ≠ w → ∀ k t, isTop s k w t → F.kind k ≠ .collector) :
      Step F workers s ⟨setSt s j (.started w s.clock), s.clock + 1⟩
  /-- the top job finishes: all its children have finished -/
  | finish (s : State) (j w t : Nat) (hj : j < F.n) (htop : isTop s j w t)
      (hch : ∀ c, c < F.n → F.parent c = some j → s.st c = .finished) :
      Step F workers s ⟨setSt s j .finished, s.clock⟩

def init : State := ⟨fun _ => .unspawned, 0⟩

inductive Reach (F : Forest) (workers : Nat) : State → Prop
  | refl : Reach F workers init
  | step {s s'} : Reach F workers s → Step F workers s s' → Reach F workers s'

def allFinished (F : Forest) (s : State) : Prop := ∀ j, j < F.n → s.st j = .finished

/-! ## executable replay of a logged execution (driver)

  The log of a real run (taps on submit / job start / job end / trial start / trial end / collection
  end, with thread ids) is replayed as a sequence of `spawn`, `start` and `finish` steps; every event
  must be an enabled step of the system above. -/

structure RJob where
  id : Nat
  parent : Option Nat
  kind : Kind
  st : St
  deriving Repr

inductive NEv
  | spawn (j : Nat) (parent : Option Nat) (kind : Kind) (w : Nat)
  | start (j w : Nat)
  | finish (j w : Nat)
  deriving Repr

def findJob (js : List RJob) (j : Nat) : Option RJob := js.find? (·.id = j)

def setJob (js : List RJob) (j : Nat) (x : St) : List RJob :=
  js.map fun r => if r.id = j then { r with st := x } else r

/-- the top of worker `w`'s stack: the unfinished job started last on `w` -/
def topOf (js : List RJob) (w : Nat) : Option (RJob × Nat) :=
  js.foldl (fun best r =>
    match r.st with
    | .started w' t => if w' = w then (match best with
                                       | some (_, tb) => if tb < t then some (r, t) else best
                                       | none => some (r, t)) else best
    | _ => best) none

def nestReplay (evs : List NEv) : Except String (List RJob × Nat) :=
  evs.foldlM (fun (acc : List RJob × Nat) ev =>
    let (js, clock) := acc
    match ev with
    | .spawn j parent kind w =>
      if (findJob js j).isSome then .error s!"spawn-twice:{j}" else
      match parent with
      | none => .ok (js ++ [⟨j, none, kind, .queued w⟩], clock)
      | some p =>
        match findJob js p with
        | none => .error s!"spawn-by-unknown-parent:{j}"
        | some pr =>
          if pr.kind = .pure then .error s!"spawn-by-pure-job:{j}" else
          match pr.st with
          | .started pw _ =>
            -- trials are forked by whichever thread runs that part of the parallel loop
            if kind = .pure then .ok (js ++ [⟨j, some p, kind, .queued w⟩], clock) else
            if pw ≠ w then .error s!"spawn-from-another-thread:{j}" else
            (match topOf js w with
             | some (top, _) => if top.id = p then .ok (js ++ [⟨j, some p, kind, .queued w⟩], clock)
                                else .error s!"spawn-by-a-job-that-is-not-running:{j}"
             | none => .error s!"spawn-by-a-job-that-is-not-running:{j}")
          | _ => .error s!"spawn-by-parent-not-started:{j}"
    | .start j w =>
      match findJob js j with
      | none => .error s!"start-unknown:{j}"
      | some r =>
        match r.st with
        | .queued q =>
          (match topOf js w with
           | some (top, _) =>
             if top.kind = .pure then .error s!"start-on-top-of-a-pure-job:{j}"
             else if q ≠ w ∧ top.kind = .collector then .error s!"collector-stole-a-job:{j}"
             else .ok (setJob js j (.started w clock), clock + 1)
           | none => .ok (setJob js j (.started w clock), clock + 1))
        | _ => .error s!"start-not-queued:{j}"
    | .finish j w =>
      match findJob js j with
      | none => .error s!"finish-unknown:{j}"
      | some r =>
        match r.st with
        | .started w' _ =>
          if w' ≠ w then .error s!"finish-on-another-thread:{j}" else
          (match topOf js w with
           | some (top, _) =>
             if top.id ≠ j then .error s!"finish-below-the-top:{j}"
             else if js.any (fun c => c.parent = some j ∧ c.st ≠ .finished) then .error s!"finish-before-children:{j}"
             else .ok (setJob js j .finished, clock)
           | none => .error s!"finish-below-the-top:{j}")
        | _ => .error s!"finish-not-started:{j}")
    ([], 0)

end OxiModel.Nest

import OxiModel.FilterImage
import OxiModel.FiltersProofs
/-
  Image-level round trip (C19): filtering the rows of an image with ANY per-row choice of filter
  type 0..4 and reconstructing per the specification (prior row = previous reconstructed row of the
  same pass, zeros at the start of a pass) gives back the rows.
-/
namespace OxiModel
open Spec

/-- a row of an image: its bytes and its interlace pass -/
abbrev Row := Bytes × Option Nat

/-- `filter_image` seen row by row: row `k` is filtered with type `fts[k]` against the previous row
    (zeros when the pass changes or the length differs) -/
def filterRows (bpp : Nat) : List Row → List Nat → Option Nat → Bytes → Option (List (Nat × Bytes × Option Nat))
  | [], _, _, _ => some []
  | _ :: _, [], _, _ => none
  | (data, pass) :: rest, ft :: fts, prevPass, prevLine =>
    let fresh := prevPass ≠ pass ∨ data.length ≠ prevLine.length
    let prev := if fresh then List.replicate data.length 0 else prevLine
    match filterLineBody ft bpp data prev with
    | none => none
    | some body => (filterRows bpp rest fts pass data).map ((ft, body, pass) :: ·)

/-- the specification's reconstruction of a filtered image, row by row (this is also what
    `unfilter_image` does: `last_line` cleared on a pass change, then resized) -/
def reconRows (bpp : Nat) : List (Nat × Bytes × Option Nat) → Option Nat → Bytes → Option (List Bytes)
  | [], _, _ => some []
  | (ft, body, pass) :: rest, lastPass, lastLine =>
    let lastLine := if lastPass ≠ pass then [] else lastLine
    let prev := (lastLine ++ List.replicate (body.length - lastLine.length) 0).take body.length
    match Spec.recon ft bpp body prev with
    | none => none
    | some line => (reconRows bpp rest pass line).map (line :: ·)

/-- rows of a well-formed image: every row holds at least one whole pixel, and rows of the same
    pass have the same length -/
def RowsWF (bpp : Nat) : List Row → Option Nat → Nat → Prop
  | [], _, _ => True
  | (data, pass) :: rest, prevPass, prevLen =>
    bpp ≤ data.length ∧ (prevPass = pass → prevLen = data.length ∨ prevLen = 0) ∧ RowsWF bpp rest pass data.length

theorem resize_self (l : Bytes) : (l ++ List.replicate (l.length - l.length) 0).take l.length = l := by
  simp

theorem resize_nil (n : Nat) : (([] : Bytes) ++ List.replicate (n - ([] : Bytes).length) 0).take n = List.replicate n 0 := by
  simp

theorem filterLineBody_length (ft bpp : Nat) (data prev body : Bytes) (hft : ft ≤ 4) (hb : 0 < bpp)
    (hlen : bpp ≤ data.length) (heq : data.length = prev.length)
    (h : filterLineBody ft bpp data prev = some body) : body.length = data.length := by
  rw [filterLineBody_eq_encode ft bpp data prev hft hb hlen heq] at h
  injection h with h
  rw [← h, encode_length]

/-- **Row-wise round trip for every choice of filter types.** -/
theorem recon_filter_rows (bpp : Nat) (hb : 0 < bpp) :
    ∀ (rows : List Row) (fts : List Nat) (prevPass : Option Nat) (prevLine : Bytes)
      (frows : List (Nat × Bytes × Option Nat)),
      (∀ ft ∈ fts, ft ≤ 4) → RowsWF bpp rows prevPass prevLine.length →
      filterRows bpp rows fts prevPass prevLine = some frows →
      reconRows bpp frows prevPass prevLine = some (rows.map (·.1)) := by
  intro rows
  induction rows with
  | nil =>
    intro fts prevPass prevLine frows _ _ h
    simp only [filterRows, Option.some.injEq] at h
    subst h
    rfl
  | cons row rest ih =>
    intro fts prevPass prevLine frows hfts hwf h
    obtain ⟨data, pass⟩ := row
    cases fts with
    | nil => simp [filterRows] at h
    | cons ft fts =>
      have hft : ft ≤ 4 := hfts ft List.mem_cons_self
      obtain ⟨hlen, hsame, hwfrest⟩ := hwf
      simp only [filterRows] at h
      -- the prior line the filter used
      let prev := if (prevPass ≠ pass ∨ data.length ≠ prevLine.length) then List.replicate data.length (0 : UInt8) else prevLine
      have hprevlen : data.length = prev.length := by
        simp only [prev]
        split
        · simp
        · rename_i hc
          have : ¬ data.length ≠ prevLine.length := fun hne => hc (Or.inr hne)
          simpa using this
      cases hbody : filterLineBody ft bpp data prev with
      | none =>
        simp only [prev] at hbody
        rw [hbody] at h
        cases h
      | some body =>
        simp only [prev] at hbody
        rw [hbody] at h
        simp only [Option.map_eq_some_iff] at h
        obtain ⟨frest, hfrest, hfr⟩ := h
        subst hfr
        have hbl : body.length = data.length :=
          filterLineBody_length ft bpp data prev body hft hb hlen hprevlen hbody
        -- the prior line reconstruction uses is the same
        have hprev_eq : ((if prevPass ≠ pass then [] else prevLine) ++
            List.replicate (body.length - (if prevPass ≠ pass then ([] : Bytes) else prevLine).length) 0).take body.length
            = prev := by
          rw [hbl]
          by_cases hp : prevPass ≠ pass
          · simp only [hp, if_true, prev, true_or, ne_eq, not_false_eq_true]
            simp
          · have hpe : prevPass = pass := by simpa using hp
            simp only [hp, if_false]
            rcases hsame hpe with hl | hl
            · -- same pass, same length: the previous row itself
              have : ¬ (prevPass ≠ pass ∨ data.length ≠ prevLine.length) := by
                intro hc; rcases hc with hc | hc
                · exact hp hc
                · exact hc hl.symm
              simp only [prev, this, if_false]
              rw [← hl]; simp
            · -- empty previous line (start of the image): zeros on both sides
              have hnil : prevLine = [] := List.eq_nil_of_length_eq_zero hl
              subst hnil
              by_cases hd : data.length = 0
              · simp [prev, hd]
              · have : (prevPass ≠ pass ∨ data.length ≠ ([] : Bytes).length) := Or.inr (by simpa using hd)
                simp only [prev, this, if_true]
                simp
        simp only [reconRows]
        rw [hprev_eq]
        -- one row: spec reconstruction of the filtered body is the row
        have hone : Spec.recon ft bpp body prev = some data := by
          rw [filterLineBody_eq_encode ft bpp data prev hft hb hlen hprevlen] at hbody
          injection hbody with hbody
          rw [← hbody]
          simp [Spec.recon, hft, decode_encode _ bpp hb]
        rw [hone]
        simp only
        have := ih fts pass data frest (fun f hf => hfts f (List.mem_cons_of_mem _ hf)) hwfrest hfrest
        rw [this]
        rfl

end OxiModel

namespace OxiModel
open Spec

/-! ### glue: the stream-level models that the correspondence streams test are the row-level functions -/

/-- the filter types a *standard* strategy uses on the rows (Up/Average/Paeth fall back to None on
    the first row of an interlace pass) -/
def stdChoices (strategy : Nat) : List Row → Option Nat → List Nat
  | [], _ => []
  | (_, pass) :: rest, prevPass => standardRowFilter strategy (prevPass ≠ pass) :: stdChoices strategy rest pass

theorem stdChoices_le (strategy : Nat) (hs : strategy ≤ 4) :
    ∀ (rows : List Row) (prevPass : Option Nat), ∀ ft ∈ stdChoices strategy rows prevPass, ft ≤ 4 := by
  intro rows
  induction rows with
  | nil => intro _ ft h; simp [stdChoices] at h
  | cons r rest ih =>
    intro prevPass ft h
    obtain ⟨d, p⟩ := r
    simp only [stdChoices, List.mem_cons] at h
    rcases h with rfl | h
    · unfold standardRowFilter; split <;> omega
    · exact ih p ft h

def serialise (frows : List (Nat × Bytes × Option Nat)) : Bytes :=
  frows.flatMap fun fr => UInt8.ofNat fr.1 :: fr.2.1

def rowsOfLines (lines : List (UInt8 × Bytes × Option Nat × Nat)) : List Row := lines.map fun l => (l.2.1, l.2.2.1)

/-- `filter_image` for a standard strategy = row-wise filtering with `stdChoices`, serialised -/
theorem filterLinesStd_eq (strategy bpp : Nat) :
    ∀ (lines : List (UInt8 × Bytes × Option Nat × Nat)) (prevPass : Option Nat) (prevLine acc : Bytes),
      filterLinesStd strategy bpp lines prevPass prevLine acc =
        (filterRows bpp (rowsOfLines lines) (stdChoices strategy (rowsOfLines lines) prevPass) prevPass prevLine).map
          fun frows => acc ++ serialise frows := by
  intro lines
  induction lines with
  | nil => intro prevPass prevLine acc; simp [filterLinesStd, filterRows, rowsOfLines, stdChoices, serialise]
  | cons l rest ih =>
    intro prevPass prevLine acc
    obtain ⟨f, data, pass, px⟩ := l
    simp only [filterLinesStd, rowsOfLines, List.map_cons, stdChoices, filterRows, filterLine]
    cases hb : filterLineBody (standardRowFilter strategy (prevPass ≠ pass)) bpp data
        (if prevPass ≠ pass ∨ data.length ≠ prevLine.length then List.replicate data.length 0 else prevLine) with
    | none => simp
    | some body =>
      simp only [Option.map_some]
      have := ih pass data (acc ++ UInt8.ofNat (standardRowFilter strategy (prevPass ≠ pass)) :: body)
      simp only [rowsOfLines] at this
      rw [this]
      simp only [Option.map_map]
      congr 1
      funext frows
      simp [serialise, List.append_assoc]

def toLines (frows : List (Nat × Bytes × Option Nat)) : List (UInt8 × Bytes × Option Nat × Nat) :=
  frows.map fun fr => (UInt8.ofNat fr.1, fr.2.1, fr.2.2, 0)

/-- filtered rows as `unfilter_image` needs them: legal type, at least one pixel, equal length within a pass -/
def FRowsWF (bpp : Nat) : List (Nat × Bytes × Option Nat) → Option Nat → Nat → Prop
  | [], _, _ => True
  | (ft, body, pass) :: rest, lastPass, lastLen =>
    ft ≤ 4 ∧ bpp ≤ body.length ∧ (lastPass = pass → lastLen = body.length ∨ lastLen = 0) ∧ FRowsWF bpp rest pass body.length

/-- `unfilter_image` = the specification's row-wise reconstruction (on well-formed input) -/
theorem unfilterLines_eq_reconRows (bpp : Nat) (hb : 0 < bpp) :
    ∀ (frows : List (Nat × Bytes × Option Nat)) (lastPass : Option Nat) (lastLine acc : Bytes),
      FRowsWF bpp frows lastPass lastLine.length →
      unfilterLines bpp (toLines frows) lastPass lastLine acc =
        (reconRows bpp frows lastPass lastLine).map fun ls => some (acc ++ ls.flatten) := by
  intro frows
  induction frows with
  | nil => intro lastPass lastLine acc _; simp [unfilterLines, toLines, reconRows]
  | cons fr rest ih =>
    intro lastPass lastLine acc hwf
    obtain ⟨ft, body, pass⟩ := fr
    obtain ⟨hft, hlen, hsame, hrest⟩ := hwf
    simp only [toLines, List.map_cons, unfilterLines, reconRows]
    have hmod : (UInt8.ofNat ft).toNat = ft := by
      simp only [UInt8.toNat_ofNat']; omega
    rw [hmod]
    have h9 : ¬ ft > 9 := by omega
    simp only [h9, if_false]
    -- the resized prior line has the length of the body
    have hplen : body.length = (((if lastPass ≠ pass then [] else lastLine) ++
        List.replicate (body.length - (if lastPass ≠ pass then ([] : Bytes) else lastLine).length) 0).take body.length).length := by
      rw [List.length_take, List.length_append, List.length_replicate]; omega
    rw [unfilterLine_eq_recon ft bpp body _ hb hlen hplen]
    simp only [Spec.recon, hft, if_true]
    have hl : (decode (Spec.pred ft) bpp body
        (((if lastPass ≠ pass then [] else lastLine) ++
          List.replicate (body.length - (if lastPass ≠ pass then ([] : Bytes) else lastLine).length) 0).take body.length)).length
        = body.length := decode_length _ _ _ _
    have := ih pass _ (acc ++ decode (Spec.pred ft) bpp body
        (((if lastPass ≠ pass then [] else lastLine) ++
          List.replicate (body.length - (if lastPass ≠ pass then ([] : Bytes) else lastLine).length) 0).take body.length))
        (by rw [hl]; exact hrest)
    simp only [toLines] at this
    rw [this]
    simp only [Option.map_map]
    congr 1
    funext ls
    simp [List.append_assoc]

end OxiModel

import OxiModel.Reductions
import OxiModel.Interlace
/-
  The reductions as a closed set of operations guarded by the option switches
  (/repo/src/reduction/mod.rs `perform_reductions`), and lineage search: is an observed image
  reachable from the input by operations the switches allow?
-/
namespace OxiModel

structure Switches where
  bitDepth : Bool
  colorType : Bool
  palette : Bool
  grayscale : Bool
  interlace : Option Bool     -- `opts.interlace`: none = keep
  alpha : Bool                -- optimize_alpha
  scale16 : Bool
  deriving Repr, DecidableEq

inductive Op
  | interlace (to : Bool)
  | cleanAlpha
  | depth16to8
  | rgbToGray
  | expandTo8
  | condensePalette
  | sortLuma
  | dropAlpha
  | indexedToChannels          -- leaf: its result is never reduced further
  | toIndexed                  -- followed by the luma sort, as in the code
  | reduceDepth8
  deriving Repr, DecidableEq

def Op.all : List Op :=
  [.interlace true, .interlace false, .cleanAlpha, .depth16to8, .rgbToGray, .expandTo8,
   .condensePalette, .sortLuma, .dropAlpha, .indexedToChannels, .toIndexed, .reduceDepth8]

/-- the switch guarding each call site in `perform_reductions` -/
def allowed (sw : Switches) : Op → Bool
  | .interlace to => sw.interlace = some to
  | .cleanAlpha => sw.alpha
  | .depth16to8 => sw.bitDepth
  | .rgbToGray => sw.colorType && sw.grayscale
  | .expandTo8 => sw.bitDepth
  | .condensePalette => sw.palette
  | .sortLuma => sw.palette
  | .dropAlpha => sw.colorType
  | .indexedToChannels => sw.colorType
  | .toIndexed => sw.colorType
  | .reduceDepth8 => sw.bitDepth

/-- the operation itself, with the arguments `perform_reductions` passes; `none` where the Rust
    function returns `None` (or the image is untouched) -/
def applyOp (sw : Switches) : Op → Img → Option Img
  | .interlace to, i => (changeInterlacing i to).join
  | .cleanAlpha, i => cleanedAlphaChannel i
  | .depth16to8, i => reducedBitDepth16to8 i sw.scale16
  | .rgbToGray, i => reducedRgbToGrayscale i
  | .expandTo8, i => expandedBitDepthTo8 i
  | .condensePalette, i => reducedPalette i sw.alpha
  | .sortLuma, i => sortedPalette i
  | .dropAlpha, i => reducedAlphaChannel i sw.alpha
  | .indexedToChannels, i => indexedToChannels i sw.grayscale sw.alpha
  | .toIndexed, i => (reducedToIndexed i sw.grayscale).map fun r => (sortedPalette r).getD r
  | .reduceDepth8, i => reducedBitDepth8OrLess i

def Op.isLeaf : Op → Bool
  | .indexedToChannels => true
  | _ => false

/-! ## canonical form of indexed images (palette order is a free choice of the sorters) -/

def rgbaKey (c : Rgba) : Nat := ((c.r.toNat * 256 + c.g.toNat) * 256 + c.b.toNat) * 256 + c.a.toNat

/-- Indexed images at 8 bits: palette entries that are used, sorted by (colour, first use); data
    remapped. Two images with the same canonical form decode to the same pixels. -/
def canon (i : Img) : Img :=
  match i.ihdr.ct with
  | .indexed p =>
    if i.ihdr.depth ≠ 8 then i else
    let black : Rgba := ⟨0, 0, 0, 255⟩
    let usedIdx := (List.range 256).filter fun k => i.data.contains (UInt8.ofNat k)
    let entries := usedIdx.map fun k => (rgbaKey (p.getD k black), k)
    let sorted := entries.mergeSort fun a b => a.1 < b.1 ∨ (a.1 = b.1 ∧ a.2 ≤ b.2)
    -- merge duplicates: equal colours get the same new index
    let (pal, bmap) := sorted.foldl (fun (st : List Nat × List (Nat × Nat)) e =>
        match st.1.getLast? with
        | some last => if last = e.1 then (st.1, (e.2, st.1.length - 1) :: st.2)
                       else (st.1 ++ [e.1], (e.2, st.1.length) :: st.2)
        | none => ([e.1], [(e.2, 0)])) ([], [])
    let palette : List Rgba := pal.map fun k =>
      ⟨UInt8.ofNat (k / 16777216), UInt8.ofNat (k / 65536), UInt8.ofNat (k / 256), UInt8.ofNat k⟩
    ⟨{ i.ihdr with ct := .indexed palette }, i.data.map fun b => UInt8.ofNat ((bmap.lookup b.toNat).getD 0)⟩
  | _ => i

/-! ## lineage search -/

/-- one BFS layer: apply every allowed op to every frontier image (leaf results are not expanded) -/
def expand (sw : Switches) (frontier : List (Img × Bool)) : List (Img × Bool) :=
  frontier.flatMap fun (img, leaf) =>
    if leaf then [] else
    Op.all.filterMap fun op =>
      if allowed sw op then (applyOp sw op img).map fun o => (o, op.isLeaf) else none

/-- add newly found images to `seen`; returns the new `seen` and the fresh frontier. An image first
    met as a leaf result and met again as an ordinary result is upgraded (and expanded): whether a
    result is reduced further depends on the call site that produced it, not on the image. -/
def dedupInto (seen : List (Img × Bool)) (new : List (Img × Bool)) : List (Img × Bool) × List (Img × Bool) :=
  new.foldl (fun (st : List (Img × Bool) × List (Img × Bool)) x =>
    if st.1.any (fun y => y.1 = x.1 ∧ (y.2 = false ∨ x.2 = true)) then st
    else (x :: st.1.filter (fun y => y.1 ≠ x.1), x :: st.2.filter (fun y => y.1 ≠ x.1))) (seen, [])

/-- all images reachable from `start` in at most `depth` allowed operations -/
def closure (sw : Switches) (start : Img) (depth : Nat) : List Img :=
  let rec go : Nat → List (Img × Bool) → List (Img × Bool) → List (Img × Bool)
    | 0, seen, _ => seen
    | n + 1, seen, frontier =>
      if frontier.isEmpty then seen else
      let (seen', fresh) := dedupInto seen (expand sw frontier)
      go n seen' fresh
  (go depth [(start, false)] [(start, false)]).map (·.1)

/-- colours under fully transparent pixels are free when alpha optimisation is on (the row filters
    rewrite them): compare images after blackening such pixels -/
def alphaNorm (i : Img) : Img := (cleanedAlphaChannel i).getD i

/-- normal form used for membership: palette order is free when palette changes are enabled,
    invisible colour is free when alpha optimisation is enabled -/
def normFor (sw : Switches) (i : Img) : Img :=
  let i := if sw.alpha then alphaNorm i else i
  if sw.palette then canon i else i

/-- Is `observed` in the closure (up to the freedoms of `normFor`)? -/
def inLineage (sw : Switches) (start observed : Img) (depth : Nat) : Bool :=
  let cl := closure sw start depth
  cl.contains observed || (cl.map (normFor sw)).contains (normFor sw observed)

end OxiModel

import OxiModel.Pipeline
/-
  Frame lemmas: what each reduction may change in the header (helper lemmas for C08, C10, C13).
-/
namespace OxiModel
set_option linter.unusedSimpArgs false

theorem trns16to8_code (ct : ColorType) (f : Nat → Option Nat) :
    (trns16to8 ct f).code = ct.code ∧ (trns16to8 ct f).isGray = ct.isGray ∧
    (∀ p, ct = .indexed p → trns16to8 ct f = .indexed p) := by
  cases ct with
  | gray t => cases t <;> simp [trns16to8, ColorType.code, ColorType.isGray]
  | rgb t =>
    cases t with
    | none => simp [trns16to8, ColorType.code, ColorType.isGray]
    | some k =>
      obtain ⟨r, g, b⟩ := k
      simp only [trns16to8]
      split <;> simp [ColorType.code, ColorType.isGray]
  | indexed p => simp [trns16to8, ColorType.code, ColorType.isGray]
  | grayAlpha => simp [trns16to8, ColorType.code, ColorType.isGray]
  | rgba => simp [trns16to8, ColorType.code, ColorType.isGray]

theorem depth16to8_frame (i o : Img) (s : Bool) (h : reducedBitDepth16to8 i s = some o) :
    o.ihdr.width = i.ihdr.width ∧ o.ihdr.height = i.ihdr.height ∧ o.ihdr.interlaced = i.ihdr.interlaced ∧
    o.ihdr.ct.code = i.ihdr.ct.code ∧ o.ihdr.ct.isGray = i.ihdr.ct.isGray ∧
    (∀ p, i.ihdr.ct = .indexed p → o.ihdr.ct = .indexed p) := by
  simp only [reducedBitDepth16to8, scaledBitDepth16to8, Option.ite_none_left_eq_some] at h
  obtain ⟨_, h⟩ := h
  split at h
  · simp only [Option.ite_none_left_eq_some, Option.some.injEq] at h
    obtain ⟨_, rfl⟩ := h
    have := trns16to8_code i.ihdr.ct scaledKey
    exact ⟨rfl, rfl, rfl, this.1, this.2.1, this.2.2⟩
  · simp only [Option.ite_none_left_eq_some, Option.some.injEq] at h
    obtain ⟨_, rfl⟩ := h
    have := trns16to8_code i.ihdr.ct exactKey
    exact ⟨rfl, rfl, rfl, this.1, this.2.1, this.2.2⟩

theorem ct_match_frame (ct : ColorType) (f : Nat → ColorType)
    (hf : ∀ t, (f t).code = 0 ∧ (f t).isGray = true) :
    (match ct with | .gray (some t) => f t | c => c).code = ct.code ∧
    (match ct with | .gray (some t) => f t | c => c).isGray = ct.isGray ∧
    (∀ p, ct = .indexed p → (match ct with | .gray (some t) => f t | c => c) = .indexed p) := by
  cases ct with
  | gray t =>
    cases t with
    | none => simp [ColorType.code, ColorType.isGray]
    | some v => exact ⟨(hf v).1, (hf v).2, fun p hp => by cases hp⟩
  | rgb t => simp [ColorType.code, ColorType.isGray]
  | indexed p => simp [ColorType.code, ColorType.isGray]
  | grayAlpha => simp [ColorType.code, ColorType.isGray]
  | rgba => simp [ColorType.code, ColorType.isGray]

theorem expand_frame (i o : Img) (h : expandedBitDepthTo8 i = some o) :
    o.ihdr.width = i.ihdr.width ∧ o.ihdr.height = i.ihdr.height ∧ o.ihdr.interlaced = i.ihdr.interlaced ∧
    o.ihdr.ct.code = i.ihdr.ct.code ∧ o.ihdr.ct.isGray = i.ihdr.ct.isGray ∧
    (∀ p, i.ihdr.ct = .indexed p → o.ihdr.ct = .indexed p) := by
  simp only [expandedBitDepthTo8, Option.ite_none_left_eq_some] at h
  obtain ⟨_, h⟩ := h
  split at h
  · cases h
  · simp only [Option.some.injEq] at h
    subst h
    have := ct_match_frame i.ihdr.ct (fun t => .gray (some (replicateBits t i.ihdr.depth)))
      (fun t => ⟨rfl, rfl⟩)
    exact ⟨rfl, rfl, rfl, this.1, this.2.1, this.2.2⟩

theorem reduce8_frame (i o : Img) (h : reducedBitDepth8OrLess i = some o) :
    o.ihdr.width = i.ihdr.width ∧ o.ihdr.height = i.ihdr.height ∧ o.ihdr.interlaced = i.ihdr.interlaced ∧
    o.ihdr.ct.code = i.ihdr.ct.code ∧ o.ihdr.ct.isGray = i.ihdr.ct.isGray ∧
    (∀ p, i.ihdr.ct = .indexed p → o.ihdr.ct = .indexed p) := by
  simp only [reducedBitDepth8OrLess, Option.ite_none_left_eq_some] at h
  obtain ⟨_, h⟩ := h
  split at h
  · rename_i mb lines _ _
    simp only [Option.some.injEq] at h
    subst h
    have := ct_match_frame i.ihdr.ct
      (fun trans => .gray (if trans = replicateBits ((trans % 256) / 2 ^ (8 - mb)) mb then some ((trans % 256) / 2 ^ (8 - mb)) else none))
      (fun t => ⟨rfl, rfl⟩)
    exact ⟨rfl, rfl, rfl, this.1, this.2.1, this.2.2⟩
  · cases h

theorem rgbToGray_frame (i o : Img) (h : reducedRgbToGrayscale i = some o) :
    o.ihdr.width = i.ihdr.width ∧ o.ihdr.height = i.ihdr.height ∧ o.ihdr.interlaced = i.ihdr.interlaced ∧
    o.ihdr.depth = i.ihdr.depth ∧ i.ihdr.ct.isIndexed = false := by
  simp only [reducedRgbToGrayscale, Option.ite_none_left_eq_some, Option.ite_none_right_eq_some, Option.some.injEq] at h
  obtain ⟨hrgb, _, rfl⟩ := h
  refine ⟨rfl, rfl, rfl, rfl, ?_⟩
  cases hct : i.ihdr.ct <;> simp [hct, ColorType.isRgb, ColorType.isIndexed] at hrgb ⊢

theorem cleanAlpha_frame (i o : Img) (h : cleanedAlphaChannel i = some o) : o.ihdr = i.ihdr := by
  simp only [cleanedAlphaChannel, Option.ite_none_left_eq_some, Option.some.injEq] at h
  obtain ⟨_, rfl⟩ := h
  rfl

theorem condense_frame (i o : Img) (a : Bool) (h : reducedPalette i a = some o) :
    o.ihdr.width = i.ihdr.width ∧ o.ihdr.height = i.ihdr.height ∧ o.ihdr.interlaced = i.ihdr.interlaced ∧
    o.ihdr.depth = i.ihdr.depth ∧ o.ihdr.ct.code = i.ihdr.ct.code ∧ o.ihdr.ct.isGray = i.ihdr.ct.isGray := by
  simp only [reducedPalette, Option.ite_none_left_eq_some] at h
  obtain ⟨_, h⟩ := h
  split at h
  · rename_i p hp
    split at h
    · simp only [Option.some.injEq] at h; subst h; simp [hp, ColorType.code, ColorType.isGray]
    · split at h
      · simp only [Option.some.injEq] at h; subst h; simp [hp, ColorType.code, ColorType.isGray]
      · cases h
  · cases h

theorem sortLuma_frame (i o : Img) (h : sortedPalette i = some o) :
    o.ihdr.width = i.ihdr.width ∧ o.ihdr.height = i.ihdr.height ∧ o.ihdr.interlaced = i.ihdr.interlaced ∧
    o.ihdr.depth = i.ihdr.depth ∧ o.ihdr.ct.code = i.ihdr.ct.code ∧ o.ihdr.ct.isGray = i.ihdr.ct.isGray := by
  simp only [sortedPalette, Option.ite_none_left_eq_some] at h
  obtain ⟨_, h⟩ := h
  split at h
  · rename_i p hp
    simp only [Option.ite_none_left_eq_some] at h
    obtain ⟨_, h⟩ := h
    split at h
    · cases h
    · simp only [Option.ite_none_left_eq_some, Option.some.injEq] at h
      obtain ⟨_, h⟩ := h
      subst h
      simp [hp, ColorType.code, ColorType.isGray]
  · cases h

theorem dropAlpha_frame (i o : Img) (a : Bool) (h : reducedAlphaChannel i a = some o) :
    o.ihdr.width = i.ihdr.width ∧ o.ihdr.height = i.ihdr.height ∧ o.ihdr.interlaced = i.ihdr.interlaced ∧
    o.ihdr.depth = i.ihdr.depth ∧ o.ihdr.ct.isGray = i.ihdr.ct.isGray ∧ i.ihdr.ct.isIndexed = false := by
  simp only [reducedAlphaChannel, Option.ite_none_left_eq_some] at h
  obtain ⟨ha, _, h⟩ := h
  split at h
  · cases h
  · simp only [Option.some.injEq] at h
    subst h
    refine ⟨rfl, rfl, rfl, rfl, ?_, ?_⟩ <;>
      cases hct : i.ihdr.ct <;> simp [hct, ColorType.hasAlpha, ColorType.isGray, ColorType.isIndexed] at ha ⊢

theorem toIndexed_frame (i o : Img) (g : Bool) (h : reducedToIndexed i g = some o) :
    o.ihdr.width = i.ihdr.width ∧ o.ihdr.height = i.ihdr.height ∧ o.ihdr.interlaced = i.ihdr.interlaced ∧
    o.ihdr.depth = i.ihdr.depth ∧ i.ihdr.ct.isIndexed = false ∧ o.ihdr.ct.isIndexed = true ∧
    (g = false → i.ihdr.ct.isGray = false) := by
  simp only [reducedToIndexed, Option.ite_none_left_eq_some] at h
  obtain ⟨_, hidx, hg, h⟩ := h
  split at h
  · cases h
  · simp only [Option.some.injEq] at h
    subst h
    refine ⟨rfl, rfl, rfl, rfl, by simpa using hidx, rfl, ?_⟩
    intro hgf
    subst hgf
    simpa using hg

theorem indexedToChannels_frame (i o : Img) (g a : Bool) (h : indexedToChannels i g a = some o) :
    o.ihdr.width = i.ihdr.width ∧ o.ihdr.height = i.ihdr.height ∧ o.ihdr.interlaced = i.ihdr.interlaced ∧
    o.ihdr.depth = i.ihdr.depth ∧ i.ihdr.ct.isIndexed = true ∧ o.ihdr.ct.isIndexed = false ∧
    (g = false → o.ihdr.ct.isGray = false) := by
  simp only [indexedToChannels, Option.ite_none_left_eq_some] at h
  obtain ⟨_, h⟩ := h
  split at h
  · rename_i p hp
    simp only [Option.ite_none_left_eq_some, Option.some.injEq] at h
    obtain ⟨_, h⟩ := h
    subst h
    refine ⟨rfl, rfl, rfl, rfl, by simp [hp, ColorType.isIndexed], ?_, ?_⟩
    · simp only
      split <;> simp [ColorType.isIndexed]
    · intro hg; subst hg
      simp only [Bool.false_and]
      split <;> simp_all [ColorType.isGray]
  · cases h

theorem interlace_frame (i o : Img) (to : Bool) (h : (changeInterlacing i to).join = some o) :
    o.ihdr = { i.ihdr with interlaced := to } ∧ to ≠ i.ihdr.interlaced := by
  unfold changeInterlacing at h
  by_cases hto : to = i.ihdr.interlaced
  · simp [hto] at h
  · simp only [hto, if_false] at h
    refine ⟨?_, hto⟩
    cases to
    · simp only [Bool.false_eq_true, if_false, deinterlaceImage] at h
      cases hd : deinterlaceData i with
      | none => simp [hd] at h
      | some d => simp [hd] at h; rw [← h]
    · simp only [if_true, interlaceImage] at h
      cases hd : interlaceData i with
      | none => simp [hd] at h
      | some d => simp [hd] at h; rw [← h]

end OxiModel

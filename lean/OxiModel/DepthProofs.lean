import OxiModel.LosslessProofs
/-
  Helper lemmas for the image-level theorems about samples of fewer than 8 bits (Props/C01.lean):
  packing / unpacking of a byte and of a row, and what the depth search of `reduced_bit_depth_8_or_less`
  establishes. The finite facts (all bytes, all short lists of low values) are checked by kernel
  evaluation (`decide +kernel`: no axiom beyond the kernel's own reduction).
-/
namespace OxiModel.Spec
open OxiModel

/-- all lists of length at most `n` over `0 .. k-1` -/
def listsUpTo (k : Nat) : Nat → List (List Nat)
  | 0 => [[]]
  | n + 1 => [] :: (List.range k).flatMap fun v => (listsUpTo k n).map (v :: ·)

theorem mem_listsUpTo (k : Nat) : ∀ (n : Nat) (vs : List Nat), vs.length ≤ n → (∀ v ∈ vs, v < k) → vs ∈ listsUpTo k n := by
  intro n
  induction n with
  | zero =>
    intro vs hl _
    have : vs = [] := List.eq_nil_of_length_eq_zero (by omega)
    subst this; simp [listsUpTo]
  | succ n ih =>
    intro vs hl hv
    cases vs with
    | nil => simp [listsUpTo]
    | cons v vs =>
      simp only [listsUpTo, List.mem_cons, List.mem_flatMap, List.mem_range, List.mem_map]
      right
      refine ⟨v, hv v List.mem_cons_self, vs, ih vs (by simp at hl; omega) (fun x hx => hv x (List.mem_cons_of_mem _ hx)), rfl⟩

/-- **Packing then unpacking**: the samples of the byte packed from up to `8/bits` low values are those
    values, followed by zero padding (all lists, checked by kernel evaluation) -/
theorem sub_pack_aux : ∀ bits ∈ [1, 2, 4], ∀ vs ∈ listsUpTo (2 ^ bits) (8 / bits),
    subSamples bits (packLow bits (vs.map UInt8.ofNat)) = vs ++ List.replicate (8 / bits - vs.length) 0 := by
  decide +kernel

theorem mask_low : ∀ bits ∈ [1, 2, 4], ∀ n < 256,
    (UInt8.ofNat n &&& UInt8.ofNat (2 ^ bits - 1)) = UInt8.ofNat (n % 2 ^ bits) ∧
    (UInt8.ofNat (n % 2 ^ bits) &&& UInt8.ofNat (2 ^ bits - 1)) = UInt8.ofNat (n % 2 ^ bits) := by
  decide +kernel

def lowOf (bits : Nat) (b : UInt8) : Nat := b.toNat % 2 ^ bits

theorem packLow_low (bits : Nat) (hb : bits ∈ [1, 2, 4]) (c : Bytes) :
    packLow bits c = packLow bits (c.map fun b => UInt8.ofNat (lowOf bits b)) := by
  unfold packLow
  simp only [List.zipIdx_map, List.foldl_map]
  congr 1
  funext acc x
  have h := mask_low bits hb x.1.toNat x.1.toNat_lt
  rw [UInt8.ofNat_toNat] at h
  simp only [Prod.map, id, lowOf]
  rw [h.1, h.2]

/-- the samples of the byte packed from a chunk of at most `8/bits` pixel bytes -/
theorem sub_pack (bits : Nat) (hb : bits ∈ [1, 2, 4]) (c : Bytes) (hc : c.length ≤ 8 / bits) :
    subSamples bits (packLow bits c) = c.map (lowOf bits) ++ List.replicate (8 / bits - c.length) 0 := by
  rw [packLow_low bits hb c]
  have hm : c.map (lowOf bits) ∈ listsUpTo (2 ^ bits) (8 / bits) := by
    apply mem_listsUpTo
    · simpa using hc
    · intro v hv
      obtain ⟨b, _, rfl⟩ := List.mem_map.mp hv
      exact Nat.mod_lt _ (Nat.pow_pos (by decide))
  have := sub_pack_aux bits hb _ hm
  rw [List.map_map, List.length_map] at this
  exact this

theorem chunksAux_fuel2 {α} (n : Nat) :
    ∀ (f1 f2 : Nat) (xs : List α), xs.length ≤ f1 → xs.length ≤ f2 → chunksAux n f1 xs = chunksAux n f2 xs := by
  intro f1
  induction f1 with
  | zero =>
    intro f2 xs h1 _
    have : xs = [] := List.eq_nil_of_length_eq_zero (by omega)
    subst this
    cases f2 <;> simp [chunksAux]
  | succ f ih =>
    intro f2 xs h1 h2
    cases f2 with
    | zero =>
      have : xs = [] := List.eq_nil_of_length_eq_zero (by omega)
      subst this
      simp [chunksAux]
    | succ g =>
      simp only [chunksAux]
      by_cases hc : xs = [] ∨ n = 0
      · rw [if_pos (by rcases hc with h | h; left; simp [h]; right; exact h),
            if_pos (by rcases hc with h | h; left; simp [h]; right; exact h)]
      · rw [if_neg (by intro h; apply hc; rcases h with h | h; left; simpa using h; right; exact h),
            if_neg (by intro h; apply hc; rcases h with h | h; left; simpa using h; right; exact h)]
        have hn : 0 < n := by
          rcases Nat.eq_zero_or_pos n with h | h
          · exact absurd (Or.inr h) hc
          · exact h
        have hne : xs ≠ [] := by
          intro h; apply hc; left; exact h
        have hlen : 0 < xs.length := List.length_pos_iff.mpr hne
        congr 1
        apply ih
        · simp [List.length_drop]; omega
        · simp [List.length_drop]; omega

theorem chunks_cons {α} (n : Nat) (hn : 0 < n) (xs : List α) (hne : xs ≠ []) :
    chunks n xs = xs.take n :: chunks n (xs.drop n) := by
  unfold chunks
  have hlen : 0 < xs.length := List.length_pos_iff.mpr hne
  obtain ⟨m, hm⟩ : ∃ m, xs.length = m + 1 := ⟨xs.length - 1, by omega⟩
  rw [hm]
  simp only [chunksAux]
  rw [if_neg (by
    intro h
    rcases h with h | h
    · exact hne (by simpa using h)
    · omega)]
  congr 1
  apply chunksAux_fuel2
  · simp [List.length_drop]; omega
  · exact Nat.le_refl _

theorem chunks_nil {α} (n : Nat) : chunks n ([] : List α) = [] := rfl

/-- one row: unpacking the packed row gives the pixels' low bits back -/
theorem row_unpack (bits : Nat) (hb : bits ∈ [1, 2, 4]) : ∀ (m : Nat) (xs : Bytes), xs.length ≤ m →
    (((chunks (8 / bits) xs).map (packLow bits)).flatMap (subSamples bits)).take xs.length = xs.map (lowOf bits) := by
  have hn : 0 < 8 / bits := by
    simp only [List.mem_cons, List.mem_nil_iff, or_false] at hb
    rcases hb with h | h | h <;> subst h <;> decide
  intro m
  induction m with
  | zero =>
    intro xs h
    have : xs = [] := List.eq_nil_of_length_eq_zero (by omega)
    subst this; simp [chunks_nil]
  | succ m ih =>
    intro xs h
    by_cases hne : xs = []
    · subst hne; simp [chunks_nil]
    · rw [chunks_cons _ hn xs hne]
      simp only [List.map_cons, List.flatMap_cons]
      have hlen : 0 < xs.length := List.length_pos_iff.mpr hne
      have hcl : (xs.take (8 / bits)).length ≤ 8 / bits := by simp [List.length_take]; omega
      rw [sub_pack bits hb _ hcl]
      rcases Nat.lt_or_ge xs.length (8 / bits) with hlt | hge
      · -- the only (short) chunk
        have ht : xs.take (8 / bits) = xs := List.take_of_length_le (by omega)
        have hd : xs.drop (8 / bits) = [] := List.drop_eq_nil_of_le (by omega)
        rw [ht, hd, chunks_nil]
        simp only [List.map_nil, List.flatMap_nil, List.append_nil]
        exact List.take_left' (by simp)
      · have htl : (xs.take (8 / bits)).length = 8 / bits := by simp [List.length_take]; omega
        rw [htl, Nat.sub_self, List.replicate_zero, List.append_nil]
        have hsplit : xs.length = 8 / bits + (xs.drop (8 / bits)).length := by simp [List.length_drop]; omega
        have hml : ((xs.take (8 / bits)).map (lowOf bits)).length = 8 / bits := by rw [List.length_map, htl]
        have hsplit' : xs.length = ((xs.take (8 / bits)).map (lowOf bits)).length + (xs.drop (8 / bits)).length := by
          rw [hml]; exact hsplit
        rw [hsplit', List.take_length_add_append]
        rw [ih (xs.drop (8 / bits)) (by simp [List.length_drop]; omega)]
        rw [← List.map_append, List.take_append_drop]

/-- the byte is the replication of its low `bits` bits -/
def isRep (bits : Nat) (b : UInt8) : Bool := replicateBits (lowOf bits b) bits = b.toNat

def stepOk (cur n : Nat) : Bool :=
  match minBitsStep cur (UInt8.ofNat n) with
  | some c' => decide (c' ∈ [1, 2, 4]) && decide (cur ≤ c') && isRep c' (UInt8.ofNat n)
  | none => true

theorem stepOk_all : ∀ cur ∈ [1, 2, 4], ∀ n < 256, stepOk cur n = true := by decide +kernel

theorem minBitsStep_facts : ∀ cur ∈ [1, 2, 4], ∀ n < 256, ∀ c', minBitsStep cur (UInt8.ofNat n) = some c' →
    c' ∈ [1, 2, 4] ∧ cur ≤ c' ∧ isRep c' (UInt8.ofNat n) = true := by
  intro cur hcur n hn c' h
  have := stepOk_all cur hcur n hn
  unfold stepOk at this
  rw [h] at this
  simp only [Bool.and_eq_true, decide_eq_true_eq] at this
  exact ⟨this.1.1, this.1.2, this.2⟩

theorem isRep_mono : ∀ c ∈ [1, 2, 4], ∀ c' ∈ [1, 2, 4], c ≤ c' → ∀ n < 256,
    isRep c (UInt8.ofNat n) = true → isRep c' (UInt8.ofNat n) = true := by
  decide +kernel

theorem grayMinBits_rep : ∀ (data : Bytes) (cur mb : Nat), cur ∈ [1, 2, 4] → data.foldlM minBitsStep cur = some mb →
    mb ∈ [1, 2, 4] ∧ cur ≤ mb ∧ ∀ b ∈ data, isRep mb b = true := by
  intro data
  induction data with
  | nil =>
    intro cur mb hc h
    simp only [List.foldlM_nil, pure, Option.some.injEq] at h
    subst h
    exact ⟨hc, Nat.le_refl _, fun b hb => by cases hb⟩
  | cons b data ih =>
    intro cur mb hc h
    simp only [List.foldlM_cons, bind, Option.bind] at h
    cases hs : minBitsStep cur b with
    | none => simp [hs] at h
    | some c' =>
      simp only [hs] at h
      have hb' := minBitsStep_facts cur hc b.toNat b.toNat_lt c' (by rw [UInt8.ofNat_toNat]; exact hs)
      rw [UInt8.ofNat_toNat] at hb'
      obtain ⟨h1, h2, h3⟩ := ih c' mb hb'.1 h
      refine ⟨h1, by omega, ?_⟩
      intro x hx
      rcases List.mem_cons.mp hx with rfl | hx
      · have := isRep_mono c' hb'.1 mb h1 h2 x.toNat x.toNat_lt (by rw [UInt8.ofNat_toNat]; exact hb'.2.2)
        rwa [UInt8.ofNat_toNat] at this
      · exact h3 x hx

/-- the key after the reduction, as the code computes it from an 8-bit key -/
def reducedKey (mb trans : Nat) : Option Nat :=
  let reduced := (trans % 256) / 2 ^ (8 - mb)
  if trans = replicateBits reduced mb then some reduced else none

def keyOk (mb trans v : Nat) : Bool :=
  decide (((reducedKey mb trans).map (keyComponent mb) = some v) ↔ (keyComponent 8 trans = replicateBits v mb))

theorem keyOk_all : ∀ mb ∈ [1, 2, 4], ∀ trans < 256, ∀ v < 2 ^ mb, keyOk mb trans v = true := by decide +kernel

end OxiModel.Spec

import OxiModel.ScanLines
/-
  Model of /repo/src/interlace.rs: `interlace_image`, `deinterlace_image` (bit and byte variants),
  `increment_pass`, `interlaced_constants`, and `PngImage::change_interlacing`.
-/
namespace OxiModel

/-! ## bits (Msb0) -/

def bitsOfByte (b : UInt8) : List Bool :=
  [b.toNat.testBit 7, b.toNat.testBit 6, b.toNat.testBit 5, b.toNat.testBit 4,
   b.toNat.testBit 3, b.toNat.testBit 2, b.toNat.testBit 1, b.toNat.testBit 0]

def bitsOf (bs : Bytes) : List Bool := bs.flatMap bitsOfByte

def byteOfBits (bits : List Bool) : UInt8 :=
  UInt8.ofNat ((bits ++ List.replicate (8 - bits.length) false).foldl (fun acc b => acc * 2 + (if b then 1 else 0)) 0)

/-- pack bits into bytes, padding the last byte with zero bits -/
def bytesOfBits (bits : List Bool) : Bytes := (chunks 8 bits).map byteOfBits

/-! ## interlace -/

/-- index (0..6) of the pass receiving pixel column `pm = x % 8` on row `r = y % 8` -/
def passOf (r pm : Nat) : Nat :=
  match r with
  | 0 => (match pm with | 0 => 0 | 4 => 1 | 2 => 3 | 6 => 3 | _ => 5)
  | 4 => (match pm with | 0 => 2 | 4 => 2 | 2 => 3 | 6 => 3 | _ => 5)
  | 2 => if pm % 2 = 0 then 4 else 5
  | 6 => if pm % 2 = 0 then 4 else 5
  | _ => 6

/-- bits of one source line that go to pass `k` (padding bits beyond `width * bpp` dropped) -/
def lineBitsForPass (w bpp rowIdx k : Nat) (line : Bytes) : List Bool :=
  (((bitsOf line).take (w * bpp)).zipIdx.filter fun (_, i) => passOf (rowIdx % 8) ((i / bpp) % 8) = k).map (·.1)

/-- `interlace_image` (data only): every pass is padded to a byte boundary after every source line. -/
def interlaceData (i : Img) : Option Bytes :=
  match i.scanLines false with
  | none => none
  | some lines =>
    let w := i.ihdr.width
    let bpp := i.ihdr.bpp
    some ((List.range 7).flatMap fun k =>
      lines.zipIdx.flatMap fun ((_, line, _, _), rowIdx) =>
        bytesOfBits (lineBitsForPass w bpp rowIdx k line))

def interlaceImage (i : Img) : Option Img :=
  (interlaceData i).map fun d => ⟨{ i.ihdr with interlaced := true }, d⟩

/-! ## deinterlace -/

structure PassConst where
  xShift : Nat
  yShift : Nat
  xStep : Nat
  yStep : Nat

def interlacedConstants (p : Nat) : Option PassConst :=
  match p with
  | 1 => some ⟨0,0,8,8⟩ | 2 => some ⟨4,0,8,8⟩ | 3 => some ⟨0,4,4,8⟩ | 4 => some ⟨2,0,4,4⟩
  | 5 => some ⟨0,2,2,4⟩ | 6 => some ⟨1,0,2,2⟩ | 7 => some ⟨0,1,1,2⟩ | _ => none

/-- `increment_pass`: the next pass, or `none` when the function returns `false` -/
def incrementPass (p w h : Nat) : Option Nat :=
  if p = 7 then none else
  let p := p + 1
  let p := if p = 2 ∧ w ≤ 4 then p + 1 else p
  let p := if p = 3 ∧ h ≤ 4 then p + 1 else p
  let p := if p = 4 ∧ w ≤ 2 then p + 1 else p
  let p := if p = 5 ∧ h ≤ 2 then p + 1 else p
  let p := if p = 6 ∧ w = 1 then p + 1 else p
  if p = 7 ∧ h = 1 then none else some p

structure DeState (α : Type) where
  lines : Array (Array α)
  pass : Nat
  y : Nat
  stopped : Bool := false

/-- one source line of the byte variant: scatter the units (bytes) of `line`; `none` = index panic -/
def scatterLine {α} (unitsPerPixel : Nat) (pc : PassConst) (row : Array α) (units : List α) : Option (Array α) :=
  units.zipIdx.foldlM (init := row) fun row (u, i) =>
    let x := pc.xShift + (i / unitsPerPixel) * pc.xStep
    let idx := (i % unitsPerPixel) + x * unitsPerPixel
    if idx < row.size then some (row.set! idx u) else none

def deStep {α} (w h upp : Nat) (unitsOf : PassConst → Bytes → Option (List α)) (st : DeState α) (line : Bytes) :
    Option (DeState α) :=
  if st.stopped then some st else
  match interlacedConstants st.pass with
  | none => none
  | some pc =>
    match unitsOf pc line with
    | none => none
    | some units =>
      if hy : st.y < st.lines.size then
        match scatterLine upp pc st.lines[st.y] units with
        | none => none
        | some row =>
          let lines := st.lines.set st.y row
          let y := st.y + pc.yStep
          if y ≥ h then
            match incrementPass st.pass w h with
            | none => some { st with lines := lines, stopped := true }
            | some p =>
              match interlacedConstants p with
              | none => none
              | some pc' => some { lines := lines, pass := p, y := pc'.yShift }
          else some { st with lines := lines, y := y }
      else none

/-- `deinterlace_bytes` / `deinterlace_bits` (data only); `none` = a panic in the Rust code. -/
def deinterlaceData (i : Img) : Option Bytes :=
  let w := i.ihdr.width
  let h := i.ihdr.height
  let bpp := i.ihdr.bpp
  match i.scanLines false with
  | none => none
  | some lines =>
    if bpp ≥ 8 then
      let bytesPP := bpp / 8
      let init : DeState UInt8 := ⟨Array.replicate h (Array.replicate (bytesPP * w) 0), 1, 0, false⟩
      match lines.foldlM (init := init) (fun st (_, line, _, _) =>
          deStep w h bytesPP (fun _ l => some l) st line) with
      | none => none
      | some st => some (st.lines.toList.flatMap Array.toList)
    else
      let init : DeState Bool := ⟨Array.replicate h (Array.replicate (bpp * w) false), 1, 0, false⟩
      match lines.foldlM (init := init) (fun st (_, line, _, _) =>
          deStep w h bpp (fun pc l =>
            -- `(width - x_shift).div_ceil(x_step) * bpp` (u32 subtraction: underflow panics)
            if w < pc.xShift then none else
            some ((bitsOf l).take (((w - pc.xShift + pc.xStep - 1) / pc.xStep) * bpp))) st line) with
      | none => none
      | some st => some (st.lines.toList.flatMap fun row => bytesOfBits row.toList)

def deinterlaceImage (i : Img) : Option Img :=
  (deinterlaceData i).map fun d => ⟨{ i.ihdr with interlaced := false }, d⟩

/-- `PngImage::change_interlacing`: outer `none` = panic; inner `none` = "no change" -/
def changeInterlacing (i : Img) (to : Bool) : Option (Option Img) :=
  if to = i.ihdr.interlaced then some none
  else if to then (interlaceImage i).map some else (deinterlaceImage i).map some

end OxiModel

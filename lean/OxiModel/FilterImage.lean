import OxiModel.Filters
import OxiModel.ScanLines
/-
  Image-level filtering (/repo/src/png/mod.rs): `unfilter_image` (exact model) and `filter_image`
  (exact for the five standard strategies; for the five heuristic strategies the per-row choice is a
  parameter, restricted to the set the code may try).
-/
namespace OxiModel

/-- `unfilter_image`: outer `none` = panic, `some none` = `Err(InvalidData)` -/
def unfilterLines (bpp : Nat) : List (UInt8 × Bytes × Option Nat × Nat) → Option Nat → Bytes → Bytes →
    Option (Option Bytes)
  | [], _, _, acc => some (some acc)
  | (ft, data, pass, _) :: rest, lastPass, lastLine, acc =>
    let lastLine := if lastPass ≠ pass then [] else lastLine
    -- `last_line.resize(len, 0)`
    let prev := (lastLine ++ List.replicate (data.length - lastLine.length) 0).take data.length
    if ft.toNat > 9 then some none else
    match unfilterLine ft.toNat bpp data prev with
    | none => none
    | some none => some none
    | some (some line) => unfilterLines bpp rest pass line (acc ++ line)

def unfilterImage (i : Img) : Option (Option Bytes) :=
  match i.scanLines true with
  | none => none
  | some lines => unfilterLines i.bppBytes lines none [] []

/-- the filter the code applies on a row for a *standard* strategy: Up/Average/Paeth fall back to
    None on the first row of an interlace pass (`prev_pass != line.pass`; for a non-interlaced image
    both are `None`, so its first row is filtered against a zero line) -/
def standardRowFilter (strategy : Nat) (firstOfPass : Bool) : Nat :=
  if !firstOfPass ∨ strategy ≤ 1 then strategy else 0

/-- filter types a heuristic strategy may emit on a row -/
def heuristicChoices (firstOfPass : Bool) : List Nat :=
  if firstOfPass then [0, 1] else [0, 1, 2, 3, 4]

/-- `filter_image` for strategies 0..4 without alpha optimisation; `none` = panic -/
def filterLinesStd (strategy bpp : Nat) : List (UInt8 × Bytes × Option Nat × Nat) → Option Nat → Bytes →
    Bytes → Option Bytes
  | [], _, _, acc => some acc
  | (_, data, pass, _) :: rest, prevPass, prevLine, acc =>
    let fresh := prevPass ≠ pass ∨ data.length ≠ prevLine.length
    let prev := if fresh then List.replicate data.length 0 else prevLine
    let ft := standardRowFilter strategy (prevPass ≠ pass)
    match filterLine ft bpp data prev with
    | none => none
    | some out => filterLinesStd strategy bpp rest pass data (acc ++ out)

def filterImageStd (i : Img) (strategy : Nat) : Option Bytes :=
  match i.scanLines false with
  | none => none
  | some lines => filterLinesStd strategy i.bppBytes lines none [] []

/-- filter with an explicit per-row choice of filter type (what a heuristic strategy does, seen
    from outside); `none` if a choice is not allowed on its row or the line asserts fail -/
def filterLinesChoice (bpp : Nat) : List (UInt8 × Bytes × Option Nat × Nat) → List Nat → Option Nat →
    Bytes → Bytes → Option Bytes
  | [], _, _, _, acc => some acc
  | _ :: _, [], _, _, _ => none
  | (_, data, pass, _) :: rest, ft :: fts, prevPass, prevLine, acc =>
    let firstOfPass := prevPass ≠ pass
    let fresh := firstOfPass ∨ data.length ≠ prevLine.length
    let prev := if fresh then List.replicate data.length 0 else prevLine
    if !(heuristicChoices firstOfPass).contains ft then none else
    match filterLine ft bpp data prev with
    | none => none
    | some out => filterLinesChoice bpp rest fts pass data (acc ++ out)

/-- `filter_image` with alpha optimisation for the standard strategies 0..4: the stream, and the rows
    as rewritten (each row is rewritten against the previous *rewritten* row of its pass, which is
    also what the next row is filtered against); `none` = panic -/
def filterLinesStdAlpha (strategy bpp alphaBytes : Nat) : List (UInt8 × Bytes × Option Nat × Nat) → Option Nat →
    Bytes → Bytes → List Bytes → Option (Bytes × List Bytes)
  | [], _, _, acc, rows => some (acc, rows.reverse)
  | (_, data, pass, _) :: rest, prevPass, prevLine, acc, rows =>
    let fresh := prevPass ≠ pass ∨ data.length ≠ prevLine.length
    let prev := if fresh then List.replicate data.length 0 else prevLine
    let ft := standardRowFilter strategy (prevPass ≠ pass)
    match filterLineAlpha ft bpp data prev alphaBytes with
    | none => none
    | some (data', out) => filterLinesStdAlpha strategy bpp alphaBytes rest pass data' (acc ++ out) (data' :: rows)

def filterImageStdAlpha (i : Img) (strategy : Nat) : Option (Bytes × List Bytes) :=
  let alphaBytes := if i.ihdr.ct.hasAlpha then i.bytesPerChannel else 0
  match i.scanLines false with
  | none => none
  | some lines => filterLinesStdAlpha strategy i.bppBytes alphaBytes lines none [] [] []

end OxiModel

/-
  Basic byte-level helpers shared by the model, the specification layer and the driver.
  Core Lean only (no Std / Mathlib) so that the driver links as a native executable.
-/
namespace OxiModel

abbrev Bytes := List UInt8

/-! ## Hex codec (line protocol) -/

def hexDigit (n : Nat) : Char :=
  if n < 10 then Char.ofNat (48 + n) else Char.ofNat (87 + n)

def hexOfByte (b : UInt8) : List Char :=
  [hexDigit (b.toNat / 16), hexDigit (b.toNat % 16)]

def toHex (bs : Bytes) : String :=
  if bs.isEmpty then "-" else String.ofList (bs.flatMap hexOfByte)

def hexVal (c : Char) : Option Nat :=
  if '0' ≤ c ∧ c ≤ '9' then some (c.toNat - 48)
  else if 'a' ≤ c ∧ c ≤ 'f' then some (c.toNat - 87)
  else if 'A' ≤ c ∧ c ≤ 'F' then some (c.toNat - 55)
  else none

def ofHexAux : List Char → Bytes → Option Bytes
  | [], acc => some acc.reverse
  | [_], _ => none
  | a :: b :: rest, acc =>
    match hexVal a, hexVal b with
    | some x, some y => ofHexAux rest (UInt8.ofNat (x * 16 + y) :: acc)
    | _, _ => none

def ofHex (s : String) : Option Bytes :=
  if s == "-" then some [] else ofHexAux s.toList []

/-! ## Big-endian integers -/

def be16 (n : Nat) : Bytes := [UInt8.ofNat (n / 256), UInt8.ofNat n]
def be32 (n : Nat) : Bytes :=
  [UInt8.ofNat (n / 16777216), UInt8.ofNat (n / 65536), UInt8.ofNat (n / 256), UInt8.ofNat n]

def readBE : Bytes → Nat
  | bs => bs.foldl (fun acc b => acc * 256 + b.toNat) 0

/-! ## Misc -/

def ceilDiv (a b : Nat) : Nat := (a + b - 1) / b

/-- `chunksExact n xs`: consecutive chunks of exactly `n` elements; a short remainder is dropped
    (Rust's `chunks_exact`). Fuel-free: recursion on a counter bounded by the length. -/
def chunksExactAux {α} (n : Nat) : Nat → List α → List (List α)
  | 0, _ => []
  | fuel + 1, xs => if n ≤ xs.length ∧ 0 < n then xs.take n :: chunksExactAux n fuel (xs.drop n) else []

def chunksExact {α} (n : Nat) (xs : List α) : List (List α) := chunksExactAux n xs.length xs

/-- Rust's `chunks(n)`: the last chunk may be short. -/
def chunksAux {α} (n : Nat) : Nat → List α → List (List α)
  | 0, _ => []
  | fuel + 1, xs => if xs.isEmpty ∨ n = 0 then [] else xs.take n :: chunksAux n fuel (xs.drop n)

def chunks {α} (n : Nat) (xs : List α) : List (List α) := chunksAux n xs.length xs

end OxiModel

import OxiModel.Nested
namespace OxiModel.Nest

structure Inv (F : Forest) (workers : Nat) (s : State) : Prop where
  timeLt : ∀ j w t, s.st j = .started w t → t < s.clock
  uniq : ∀ j k w w' t, s.st j = .started w t → s.st k = .started w' t → j = k
  wLt : ∀ j w t, s.st j = .started w t → w < workers
  qLt : ∀ j w, s.st j = .queued w → w < workers
  live : ∀ c p, F.parent c = some p → s.st c ≠ .unspawned → (∃ w t, s.st p = .started w t) ∨ s.st p = .finished
  finParent : ∀ c p, c < F.n → F.parent c = some p → s.st p = .finished → s.st c = .finished
  later : ∀ c p w t w' t', F.parent c = some p → s.st c = .started w t → s.st p = .started w' t' → t' < t
  queuedAt : ∀ c p w w' t, F.parent c = some p → s.st c = .queued w → s.st p = .started w' t → w = w'
  outside : ∀ j, ¬ j < F.n → s.st j = .unspawned

theorem setSt_same (s : State) (j : Nat) (x : St) : setSt s j x j = x := by simp [setSt]
theorem setSt_other (s : State) (j k : Nat) (x : St) (h : k ≠ j) : setSt s j x k = s.st k := by simp [setSt, h]

theorem inv_init (F : Forest) (workers : Nat) : Inv F workers init := by
  constructor <;> intros <;> simp_all [init]

theorem inv_step {F : Forest} {workers : Nat} {s s' : State} (hi : Inv F workers s) (hs : Step F workers s s') :
    Inv F workers s' := by
  cases hs with
  | spawnRoot j w hj hw hp hst =>
    constructor
    · intro k w' t h
      try dsimp only at *
      by_cases hk : k = j
      · subst hk; simp [setSt] at h
      · rw [setSt_other _ _ _ _ hk] at h; exact hi.timeLt k w' t h
    · intro a b w1 w2 t h1 h2
      try dsimp only at *
      by_cases ha : a = j
      · subst ha; simp [setSt] at h1
      · by_cases hb : b = j
        · subst hb; simp [setSt] at h2
        · rw [setSt_other _ _ _ _ ha] at h1; rw [setSt_other _ _ _ _ hb] at h2
          exact hi.uniq a b w1 w2 t h1 h2
    · intro k w' t h
      try dsimp only at *
      by_cases hk : k = j
      · subst hk; simp [setSt] at h
      · rw [setSt_other _ _ _ _ hk] at h; exact hi.wLt k w' t h
    · intro k w1 h
      try dsimp only at *
      by_cases hk : k = j
      · subst hk; simp [setSt] at h; omega
      · rw [setSt_other _ _ _ _ hk] at h; exact hi.qLt k w1 h
    · intro c p hcp hne
      try dsimp only at *
      by_cases hc : c = j
      · subst hc; rw [hp] at hcp; cases hcp
      · rw [setSt_other _ _ _ _ hc] at hne
        have := hi.live c p hcp hne
        by_cases hpj : p = j
        · subst hpj; rw [hst] at this; rcases this with ⟨w', t, h⟩ | h <;> cases h
        · simpa [setSt_other _ _ _ _ hpj] using this
    · intro c p hc hcp hpf
      try dsimp only at *
      by_cases hpj : p = j
      · subst hpj; simp [setSt] at hpf
      · rw [setSt_other _ _ _ _ hpj] at hpf
        have := hi.finParent c p hc hcp hpf
        by_cases hcj : c = j
        · subst hcj; rw [hst] at this; cases this
        · rw [setSt_other _ _ _ _ hcj]; exact this
    · intro c p w1 t1 w2 t2 hcp h1 h2
      try dsimp only at *
      by_cases hcj : c = j
      · subst hcj; simp [setSt] at h1
      · by_cases hpj : p = j
        · subst hpj; simp [setSt] at h2
        · rw [setSt_other _ _ _ _ hcj] at h1; rw [setSt_other _ _ _ _ hpj] at h2
          exact hi.later c p w1 t1 w2 t2 hcp h1 h2
    · intro c p w1 w2 t hcp h1 h2
      try dsimp only at *
      by_cases hcj : c = j
      · subst hcj; rw [hp] at hcp; cases hcp
      · by_cases hpj : p = j
        · subst hpj; simp [setSt] at h2
        · rw [setSt_other _ _ _ _ hcj] at h1; rw [setSt_other _ _ _ _ hpj] at h2
          exact hi.queuedAt c p w1 w2 t hcp h1 h2
    · intro k hk
      try dsimp only at *
      have : k ≠ j := fun h => hk (h ▸ hj)
      rw [setSt_other _ _ _ _ this]; exact hi.outside k hk
  | spawn j p w t hj hp hst htop =>
    constructor
    · intro k w' t' h
      try dsimp only at *
      by_cases hk : k = j
      · subst hk; simp [setSt] at h
      · rw [setSt_other _ _ _ _ hk] at h; exact hi.timeLt k w' t' h
    · intro a b w1 w2 t' h1 h2
      try dsimp only at *
      by_cases ha : a = j
      · subst ha; simp [setSt] at h1
      · by_cases hb : b = j
        · subst hb; simp [setSt] at h2
        · rw [setSt_other _ _ _ _ ha] at h1; rw [setSt_other _ _ _ _ hb] at h2
          exact hi.uniq a b w1 w2 t' h1 h2
    · intro k w' t' h
      try dsimp only at *
      by_cases hk : k = j
      · subst hk; simp [setSt] at h
      · rw [setSt_other _ _ _ _ hk] at h; exact hi.wLt k w' t' h
    · intro k w1 h
      try dsimp only at *
      by_cases hk : k = j
      · subst hk; simp [setSt] at h
        have := hi.wLt p w t htop.1; omega
      · rw [setSt_other _ _ _ _ hk] at h; exact hi.qLt k w1 h
    · intro c q hcq hne
      try dsimp only at *
      have hpj : p ≠ j := by have := F.parentLt j p hp; omega
      by_cases hc : c = j
      · subst hc; rw [hp] at hcq; cases hcq
        left; exact ⟨w, t, by rw [setSt_other _ _ _ _ hpj]; exact htop.1⟩
      · rw [setSt_other _ _ _ _ hc] at hne
        have := hi.live c q hcq hne
        by_cases hqj : q = j
        · subst hqj; rw [hst] at this; rcases this with ⟨w', t', h⟩ | h <;> cases h
        · simpa [setSt_other _ _ _ _ hqj] using this
    · intro c q hc hcq hqf
      try dsimp only at *
      by_cases hqj : q = j
      · subst hqj; simp [setSt] at hqf
      · rw [setSt_other _ _ _ _ hqj] at hqf
        have := hi.finParent c q hc hcq hqf
        by_cases hcj : c = j
        · subst hcj; rw [hst] at this; cases this
        · rw [setSt_other _ _ _ _ hcj]; exact this
    · intro c q w1 t1 w2 t2 hcq h1 h2
      try dsimp only at *
      by_cases hcj : c = j
      · subst hcj; simp [setSt] at h1
      · by_cases hqj : q = j
        · subst hqj; simp [setSt] at h2
        · rw [setSt_other _ _ _ _ hcj] at h1; rw [setSt_other _ _ _ _ hqj] at h2
          exact hi.later c q w1 t1 w2 t2 hcq h1 h2
    · intro c q w1 w2 t' hcq h1 h2
      try dsimp only at *
      have hpj : p ≠ j := by have := F.parentLt j p hp; omega
      by_cases hcj : c = j
      · subst hcj; rw [hp] at hcq; cases hcq
        simp [setSt] at h1
        rw [setSt_other _ _ _ _ hpj, htop.1] at h2
        cases h2; exact h1.symm
      · by_cases hqj : q = j
        · subst hqj; simp [setSt] at h2
        · rw [setSt_other _ _ _ _ hcj] at h1; rw [setSt_other _ _ _ _ hqj] at h2
          exact hi.queuedAt c q w1 w2 t' hcq h1 h2
    · intro k hk
      try dsimp only at *
      have : k ≠ j := fun h => hk (h ▸ hj)
      rw [setSt_other _ _ _ _ this]; exact hi.outside k hk
  | start j w w' hj hw hq hcan hsteal =>
    constructor
    · intro k w1 t h
      try dsimp only at *
      by_cases hk : k = j
      · subst hk; simp [setSt] at h; omega
      · rw [setSt_other _ _ _ _ hk] at h; have := hi.timeLt k w1 t h; omega
    · intro a b w1 w2 t h1 h2
      try dsimp only at *
      by_cases ha : a = j
      · by_cases hb : b = j
        · rw [ha, hb]
        · subst ha; simp [setSt] at h1
          rw [setSt_other _ _ _ _ hb] at h2
          have := hi.timeLt b w2 t h2; omega
      · by_cases hb : b = j
        · subst hb; simp [setSt] at h2
          rw [setSt_other _ _ _ _ ha] at h1
          have := hi.timeLt a w1 t h1; omega
        · rw [setSt_other _ _ _ _ ha] at h1; rw [setSt_other _ _ _ _ hb] at h2
          exact hi.uniq a b w1 w2 t h1 h2
    · intro k w1 t h
      try dsimp only at *
      by_cases hk : k = j
      · subst hk; simp [setSt] at h; omega
      · rw [setSt_other _ _ _ _ hk] at h; exact hi.wLt k w1 t h
    · intro k w1 h
      try dsimp only at *
      by_cases hk : k = j
      · subst hk; simp [setSt] at h
      · rw [setSt_other _ _ _ _ hk] at h; exact hi.qLt k w1 h
    · intro c p hcp hne
      try dsimp only at *
      have hold : s.st c ≠ .unspawned := by
        by_cases hc : c = j
        · subst hc; rw [hq]; intro h; cases h
        · rw [setSt_other _ _ _ _ hc] at hne; exact hne
      have := hi.live c p hcp hold
      by_cases hpj : p = j
      · subst hpj; left; exact ⟨w, s.clock, by simp [setSt]⟩
      · simpa [setSt_other _ _ _ _ hpj] using this
    · intro c p hc hcp hpf
      try dsimp only at *
      by_cases hpj : p = j
      · subst hpj; simp [setSt] at hpf
      · rw [setSt_other _ _ _ _ hpj] at hpf
        have := hi.finParent c p hc hcp hpf
        by_cases hcj : c = j
        · subst hcj; rw [hq] at this; cases this
        · rw [setSt_other _ _ _ _ hcj]; exact this
    · intro c p w1 t1 w2 t2 hcp h1 h2
      try dsimp only at *
      by_cases hpj : p = j
      · -- the parent is queued in `s`, so the child cannot have been spawned
        exfalso
        have hcj : c ≠ j := by have := F.parentLt c p hcp; omega
        rw [setSt_other _ _ _ _ hcj] at h1
        have := hi.live c p hcp (by rw [h1]; intro h; cases h)
        rw [hpj, hq] at this
        rcases this with ⟨_, _, h⟩ | h <;> cases h
      · rw [setSt_other _ _ _ _ hpj] at h2
        by_cases hcj : c = j
        · subst hcj; simp [setSt] at h1
          have := hi.timeLt p w2 t2 h2; omega
        · rw [setSt_other _ _ _ _ hcj] at h1
          exact hi.later c p w1 t1 w2 t2 hcp h1 h2
    · intro c p w1 w2 t hcp h1 h2
      try dsimp only at *
      have hcj : c ≠ j := by intro h; subst h; simp [setSt] at h1
      rw [setSt_other _ _ _ _ hcj] at h1
      by_cases hpj : p = j
      · exfalso
        have := hi.live c p hcp (by rw [h1]; intro h; cases h)
        rw [hpj, hq] at this
        rcases this with ⟨_, _, h⟩ | h <;> cases h
      · rw [setSt_other _ _ _ _ hpj] at h2
        exact hi.queuedAt c p w1 w2 t hcp h1 h2
    · intro k hk
      try dsimp only at *
      have : k ≠ j := fun h => hk (h ▸ hj)
      rw [setSt_other _ _ _ _ this]; exact hi.outside k hk
  | finish j w t hj htop hch =>
    constructor
    · intro k w1 t1 h
      try dsimp only at *
      by_cases hk : k = j
      · subst hk; simp [setSt] at h
      · rw [setSt_other _ _ _ _ hk] at h; exact hi.timeLt k w1 t1 h
    · intro a b w1 w2 t1 h1 h2
      try dsimp only at *
      by_cases ha : a = j
      · subst ha; simp [setSt] at h1
      · by_cases hb : b = j
        · subst hb; simp [setSt] at h2
        · rw [setSt_other _ _ _ _ ha] at h1; rw [setSt_other _ _ _ _ hb] at h2
          exact hi.uniq a b w1 w2 t1 h1 h2
    · intro k w1 t1 h
      try dsimp only at *
      by_cases hk : k = j
      · subst hk; simp [setSt] at h
      · rw [setSt_other _ _ _ _ hk] at h; exact hi.wLt k w1 t1 h
    · intro k w1 h
      try dsimp only at *
      by_cases hk : k = j
      · subst hk; simp [setSt] at h
      · rw [setSt_other _ _ _ _ hk] at h; exact hi.qLt k w1 h
    · intro c p hcp hne
      try dsimp only at *
      have hold : s.st c ≠ .unspawned := by
        by_cases hc : c = j
        · subst hc; rw [htop.1]; intro h; cases h
        · rw [setSt_other _ _ _ _ hc] at hne; exact hne
      have := hi.live c p hcp hold
      by_cases hpj : p = j
      · subst hpj; right; simp [setSt]
      · simpa [setSt_other _ _ _ _ hpj] using this
    · intro c p hc hcp hpf
      try dsimp only at *
      by_cases hcj : c = j
      · subst hcj; simp [setSt]
      · rw [setSt_other _ _ _ _ hcj]
        by_cases hpj : p = j
        · subst hpj; exact hch c hc hcp
        · rw [setSt_other _ _ _ _ hpj] at hpf
          exact hi.finParent c p hc hcp hpf
    · intro c p w1 t1 w2 t2 hcp h1 h2
      try dsimp only at *
      have hcj : c ≠ j := by intro h; subst h; simp [setSt] at h1
      have hpj : p ≠ j := by intro h; subst h; simp [setSt] at h2
      rw [setSt_other _ _ _ _ hcj] at h1; rw [setSt_other _ _ _ _ hpj] at h2
      exact hi.later c p w1 t1 w2 t2 hcp h1 h2
    · intro c p w1 w2 t1 hcp h1 h2
      try dsimp only at *
      have hcj : c ≠ j := by intro h; subst h; simp [setSt] at h1
      have hpj : p ≠ j := by intro h; subst h; simp [setSt] at h2
      rw [setSt_other _ _ _ _ hcj] at h1; rw [setSt_other _ _ _ _ hpj] at h2
      exact hi.queuedAt c p w1 w2 t1 hcp h1 h2
    · intro k hk
      try dsimp only at *
      have : k ≠ j := fun h => hk (h ▸ hj)
      rw [setSt_other _ _ _ _ this]; exact hi.outside k hk

theorem inv_reach {F : Forest} {workers : Nat} {s : State} (hr : Reach F workers s) : Inv F workers s := by
  induction hr with
  | refl => exact inv_init F workers
  | step _ hs ih => exact inv_step ih hs

/-! ## progress -/

theorem exists_max_started (f : Nat → St) : ∀ (n : Nat), (∃ j, j < n ∧ ∃ w t, f j = .started w t) →
    ∃ j w t, j < n ∧ f j = .started w t ∧ ∀ k w' t', k < n → f k = .started w' t' → t' ≤ t := by
  intro n
  induction n with
  | zero => rintro ⟨j, hj, _⟩; omega
  | succ n ih =>
    intro h
    rcases Classical.em (∃ j, j < n ∧ ∃ w t, f j = .started w t) with hprev | hprev
    · obtain ⟨j, w, t, hj, hf, hmax⟩ := ih hprev
      cases hn : f n with
      | started w' t' =>
        rcases Nat.lt_or_ge t t' with hlt | hge
        · refine ⟨n, w', t', by omega, hn, ?_⟩
          intro k w2 t2 hk hfk
          rcases Nat.lt_or_ge k n with hkn | hkn
          · have := hmax k w2 t2 hkn hfk; omega
          · have : k = n := by omega
            subst this; rw [hn] at hfk; cases hfk; omega
        · refine ⟨j, w, t, by omega, hf, ?_⟩
          intro k w2 t2 hk hfk
          rcases Nat.lt_or_ge k n with hkn | hkn
          · exact hmax k w2 t2 hkn hfk
          · have : k = n := by omega
            subst this; rw [hn] at hfk; cases hfk; exact hge
      | unspawned | queued _ | finished =>
        refine ⟨j, w, t, by omega, hf, ?_⟩
        intro k w2 t2 hk hfk
        rcases Nat.lt_or_ge k n with hkn | hkn
        · exact hmax k w2 t2 hkn hfk
        · have : k = n := by omega
          subst this; rw [hn] at hfk; cases hfk
    · obtain ⟨j, hj, w, t, hf⟩ := h
      have hjn : j = n := by
        rcases Nat.lt_or_ge j n with h1 | h1
        · exact absurd ⟨j, h1, w, t, hf⟩ hprev
        · omega
      subst hjn
      refine ⟨j, w, t, by omega, hf, ?_⟩
      intro k w2 t2 hk hfk
      rcases Nat.lt_or_ge k j with hkn | hkn
      · exact absurd ⟨k, hkn, w2, t2, hfk⟩ hprev
      · have : k = j := by omega
        subst this; rw [hf] at hfk; cases hfk; exact Nat.le_refl _

/-- with nothing started, nothing queued and every root handed over, everything has finished -/
theorem all_finished_of_quiet {F : Forest} {workers : Nat} {s : State} (hi : Inv F workers s)
    (hns : ∀ j w t, s.st j ≠ .started w t) (hnq : ∀ j w, s.st j ≠ .queued w)
    (hroots : ∀ j, j < F.n → F.parent j = none → s.st j ≠ .unspawned) :
    ∀ j, j < F.n → s.st j = .finished := by
  intro j
  induction j using Nat.strongRecOn with
  | _ j ih =>
    intro hj
    cases hp : F.parent j with
    | none =>
      have := hroots j hj hp
      cases hst : s.st j with
      | unspawned => exact absurd hst this
      | queued w => exact absurd hst (hnq j w)
      | started w t => exact absurd hst (hns j w t)
      | finished => rfl
    | some p =>
      have hlt := F.parentLt j p hp
      exact hi.finParent j p hj hp (ih p hlt (by omega))

/-- **Progress for nested fork-join on any pool**: in every reachable state in which some job has not
    finished, some step is enabled - whatever the forest of image tasks, evaluation jobs and trials,
    however the jobs were distributed and stolen, and however deep the workers' stacks are. The step
    is found on the job that started last: it is on top of its worker's stack, its started children
    would be younger still, so they are all finished or still in its own worker's queue. -/
theorem progress (F : Forest) (workers : Nat) (hw : 0 < workers) (s : State) (hr : Reach F workers s)
    (hnf : ¬ allFinished F s) : ∃ s', Step F workers s s' := by
  have hi := inv_reach hr
  -- a root not yet handed over
  rcases Classical.em (∃ j, j < F.n ∧ F.parent j = none ∧ s.st j = .unspawned) with ⟨j, hj, hp, hs⟩ | hroots
  · exact ⟨_, Step.spawnRoot s j 0 hj hw hp hs⟩
  have hroots' : ∀ j, j < F.n → F.parent j = none → s.st j ≠ .unspawned :=
    fun j hj hp hs => hroots ⟨j, hj, hp, hs⟩
  rcases Classical.em (∃ j, j < F.n ∧ ∃ w t, s.st j = .started w t) with hst | hnost
  · -- the youngest started job
    obtain ⟨j, w, t, hj, hsj, hmax⟩ := exists_max_started s.st F.n hst
    have hmax' : ∀ k w' t', s.st k = .started w' t' → t' ≤ t := by
      intro k w' t' hk
      rcases Nat.lt_or_ge k F.n with h1 | h1
      · exact hmax k w' t' h1 hk
      · rw [hi.outside k (by omega)] at hk; cases hk
    have htop : isTop s j w t := ⟨hsj, fun k t' hk => hmax' k w t' hk⟩
    -- a child not yet spawned
    rcases Classical.em (∃ c, c < F.n ∧ F.parent c = some j ∧ s.st c = .unspawned) with ⟨c, hc, hcp, hcs⟩ | hnu
    · exact ⟨_, Step.spawn s c j w t hc hcp hcs htop⟩
    -- a child still queued: it is in this worker's queue
    rcases Classical.em (∃ c w', c < F.n ∧ F.parent c = some j ∧ s.st c = .queued w') with ⟨c, w', hc, hcp, hcs⟩ | hnq
    · have hww : w' = w := hi.queuedAt c j w' w t hcp hcs hsj
      subst hww
      refine ⟨_, Step.start s c w' w' hc (hi.wLt j w' t hsj) hcs ?_ (fun h => absurd rfl h)⟩
      intro k t' hk
      -- the top of this worker is `j`, which has a child, hence is not pure
      have hle1 := hmax' k w' t' hk.1
      have hle2 := hk.2 j t hsj
      have : t' = t := by omega
      subst this
      have hkj := hi.uniq k j w' w' t' hk.1 hsj
      subst hkj
      exact F.pureLeaf c k hcp
    · -- all children have finished: a started one would be younger than `j`
      refine ⟨_, Step.finish s j w t hj htop ?_⟩
      intro c hc hcp
      cases hcs : s.st c with
      | unspawned => exact absurd ⟨c, hc, hcp, hcs⟩ hnu
      | queued w' => exact absurd ⟨c, w', hc, hcp, hcs⟩ hnq
      | started w' t' =>
        have h1 := hi.later c j w' t' w t hcp hcs hsj
        have h2 := hmax' c w' t' hcs
        omega
      | finished => rfl
  · -- nothing is running: a queued job can be started by any worker
    have hns : ∀ j w t, s.st j ≠ .started w t := by
      intro j w t h
      rcases Nat.lt_or_ge j F.n with h1 | h1
      · exact hnost ⟨j, h1, w, t, h⟩
      · rw [hi.outside j (by omega)] at h; cases h
    rcases Classical.em (∃ j w, s.st j = .queued w) with ⟨j, w', hq⟩ | hnq
    · have hj : j < F.n := by
        rcases Nat.lt_or_ge j F.n with h1 | h1
        · exact h1
        · rw [hi.outside j (by omega)] at hq; cases hq
      refine ⟨_, Step.start s j 0 w' hj hw hq ?_ ?_⟩
      · intro k t hk; exact absurd hk.1 (hns k 0 t)
      · intro _ k t hk; exact absurd hk.1 (hns k 0 t)
    · exfalso
      apply hnf
      exact all_finished_of_quiet hi hns (fun j w h => hnq ⟨j, w, h⟩) hroots'

/-- the same system in which nobody ever steals: a worker starts jobs of its own queue only -/
inductive StepLocal (F : Forest) (workers : Nat) : State → State → Prop
  | spawnRoot (s : State) (j w : Nat) (hj : j < F.n) (hw : w < workers) (hp : F.parent j = none)
      (hs : s.st j = .unspawned) : StepLocal F workers s ⟨setSt s j (.queued w), s.clock⟩
  | spawn (s : State) (j p w t : Nat) (hj : j < F.n) (hp : F.parent j = some p) (hs : s.st j = .unspawned)
      (htop : isTop s p w t) : StepLocal F workers s ⟨setSt s j (.queued w), s.clock⟩
  | start (s : State) (j w : Nat) (hj : j < F.n) (hw : w < workers) (hq : s.st j = .queued w)
      (hcan : canTake F s w) : StepLocal F workers s ⟨setSt s j (.started w s.clock), s.clock + 1⟩
  | finish (s : State) (j w t : Nat) (hj : j < F.n) (htop : isTop s j w t)
      (hch : ∀ c, c < F.n → F.parent c = some j → s.st c = .finished) :
      StepLocal F workers s ⟨setSt s j .finished, s.clock⟩

theorem local_is_step {F : Forest} {workers : Nat} {s s' : State} (h : StepLocal F workers s s') :
    Step F workers s s' := by
  cases h with
  | spawnRoot j w hj hw hp hs => exact Step.spawnRoot s j w hj hw hp hs
  | spawn j p w t hj hp hs htop => exact Step.spawn s j p w t hj hp hs htop
  | start j w hj hw hq hcan => exact Step.start s j w w hj hw hq hcan (fun h => absurd rfl h)
  | finish j w t hj htop hch => exact Step.finish s j w t hj htop hch

inductive ReachLocal (F : Forest) (workers : Nat) : State → Prop
  | refl : ReachLocal F workers init
  | step {s s'} : ReachLocal F workers s → StepLocal F workers s s' → ReachLocal F workers s'

theorem reachLocal_reach {F : Forest} {workers : Nat} {s : State} (h : ReachLocal F workers s) :
    Reach F workers s := by
  induction h with
  | refl => exact Reach.refl
  | step _ hs ih => exact Reach.step ih (local_is_step hs)

/-- **No stealing is needed** (in particular a pool of ONE thread cannot deadlock): the system in
    which every worker runs jobs of its own queue only still always has a step. -/
theorem progress_without_stealing (F : Forest) (workers : Nat) (hw : 0 < workers) (s : State)
    (hr : ReachLocal F workers s) (hnf : ¬ allFinished F s) : ∃ s', StepLocal F workers s s' := by
  have hi := inv_reach (reachLocal_reach hr)
  rcases Classical.em (∃ j, j < F.n ∧ F.parent j = none ∧ s.st j = .unspawned) with ⟨j, hj, hp, hs⟩ | hroots
  · exact ⟨_, StepLocal.spawnRoot s j 0 hj hw hp hs⟩
  have hroots' : ∀ j, j < F.n → F.parent j = none → s.st j ≠ .unspawned :=
    fun j hj hp hs => hroots ⟨j, hj, hp, hs⟩
  rcases Classical.em (∃ j, j < F.n ∧ ∃ w t, s.st j = .started w t) with hst | hnost
  · obtain ⟨j, w, t, hj, hsj, hmax⟩ := exists_max_started s.st F.n hst
    have hmax' : ∀ k w' t', s.st k = .started w' t' → t' ≤ t := by
      intro k w' t' hk
      rcases Nat.lt_or_ge k F.n with h1 | h1
      · exact hmax k w' t' h1 hk
      · rw [hi.outside k (by omega)] at hk; cases hk
    have htop : isTop s j w t := ⟨hsj, fun k t' hk => hmax' k w t' hk⟩
    rcases Classical.em (∃ c, c < F.n ∧ F.parent c = some j ∧ s.st c = .unspawned) with ⟨c, hc, hcp, hcs⟩ | hnu
    · exact ⟨_, StepLocal.spawn s c j w t hc hcp hcs htop⟩
    rcases Classical.em (∃ c w', c < F.n ∧ F.parent c = some j ∧ s.st c = .queued w') with ⟨c, w', hc, hcp, hcs⟩ | hnq
    · have hww : w' = w := hi.queuedAt c j w' w t hcp hcs hsj
      subst hww
      refine ⟨_, StepLocal.start s c w' hc (hi.wLt j w' t hsj) hcs ?_⟩
      intro k t' hk
      have hle1 := hmax' k w' t' hk.1
      have hle2 := hk.2 j t hsj
      have : t' = t := by omega
      subst this
      have hkj := hi.uniq k j w' w' t' hk.1 hsj
      subst hkj
      exact F.pureLeaf c k hcp
    · refine ⟨_, StepLocal.finish s j w t hj htop ?_⟩
      intro c hc hcp
      cases hcs : s.st c with
      | unspawned => exact absurd ⟨c, hc, hcp, hcs⟩ hnu
      | queued w' => exact absurd ⟨c, w', hc, hcp, hcs⟩ hnq
      | started w' t' =>
        have h1 := hi.later c j w' t' w t hcp hcs hsj
        have h2 := hmax' c w' t' hcs
        omega
      | finished => rfl
  · have hns : ∀ j w t, s.st j ≠ .started w t := by
      intro j w t h
      rcases Nat.lt_or_ge j F.n with h1 | h1
      · exact hnost ⟨j, h1, w, t, h⟩
      · rw [hi.outside j (by omega)] at h; cases h
    rcases Classical.em (∃ j w, s.st j = .queued w) with ⟨j, w', hq⟩ | hnq
    · have hj : j < F.n := by
        rcases Nat.lt_or_ge j F.n with h1 | h1
        · exact h1
        · rw [hi.outside j (by omega)] at hq; cases hq
      -- the worker that owns the queue is idle: it starts the job itself
      refine ⟨_, StepLocal.start s j w' hj (hi.qLt j w' hq) hq ?_⟩
      intro k t hk; exact absurd hk.1 (hns k w' t)
    · exfalso
      apply hnf
      exact all_finished_of_quiet hi hns (fun j w h => hnq ⟨j, w, h⟩) hroots'

/-! ## termination -/

def rank : St → Nat
  | .unspawned => 3 | .queued _ => 2 | .started _ _ => 1 | .finished => 0

def sumTo (f : Nat → Nat) : Nat → Nat
  | 0 => 0
  | n + 1 => sumTo f n + f n

theorem sumTo_congr (f g : Nat → Nat) (n : Nat) (h : ∀ k, k < n → g k = f k) : sumTo g n = sumTo f n := by
  induction n with
  | zero => rfl
  | succ n ih =>
    simp only [sumTo]
    rw [ih (fun k hk => h k (by omega)), h n (by omega)]

theorem sumTo_update_lt (f g : Nat → Nat) (n j : Nat) (hj : j < n) (hlt : g j < f j)
    (hsame : ∀ k, k ≠ j → g k = f k) : sumTo g n < sumTo f n := by
  induction n with
  | zero => omega
  | succ n ih =>
    simp only [sumTo]
    rcases Nat.lt_or_ge j n with h1 | h1
    · have := ih h1
      have hn : g n = f n := hsame n (by omega)
      omega
    · have hjn : j = n := by omega
      subst hjn
      have := sumTo_congr f g j (fun k hk => hsame k (by omega))
      omega

/-- what is left to do: every job moves unspawned → queued → started → finished -/
def measure (F : Forest) (s : State) : Nat := sumTo (fun j => rank (s.st j)) F.n

/-- **Termination**: every step strictly decreases the measure, so every execution - any forest, any
    number of workers, any stealing pattern - is finite, and by `progress` it can only end with every
    job finished. -/
theorem step_decreases (F : Forest) (workers : Nat) (s s' : State) (h : Step F workers s s') :
    measure F s' < measure F s := by
  cases h with
  | spawnRoot j w hj hw hp hs =>
    apply sumTo_update_lt _ _ F.n j hj
    · simp [setSt, hs, rank]
    · intro k hk; simp [setSt, hk]
  | spawn j p w t hj hp hs htop =>
    apply sumTo_update_lt _ _ F.n j hj
    · simp [setSt, hs, rank]
    · intro k hk; simp [setSt, hk]
  | start j w w' hj hw hq hcan hsteal =>
    apply sumTo_update_lt _ _ F.n j hj
    · simp [setSt, hq, rank]
    · intro k hk; simp [setSt, hk]
  | finish j w t hj htop hch =>
    apply sumTo_update_lt _ _ F.n j hj
    · simp [setSt, htop.1, rank]
    · intro k hk; simp [setSt, hk]

/-- an execution of `k` steps needs `k ≤ 3 * n` -/
theorem measure_le (F : Forest) (s : State) : measure F s ≤ 3 * F.n := by
  unfold measure
  generalize F.n = n
  induction n with
  | zero => simp [sumTo]
  | succ n ih =>
    simp only [sumTo]
    have : rank (s.st n) ≤ 3 := by cases s.st n <;> simp [rank]
    omega

/-- Non-vacuity: one image task (collector) with one evaluation job (forker) with two trials -/
def exampleForest : Forest where
  n := 4
  parent := fun j => match j with | 1 => some 0 | 2 => some 1 | 3 => some 1 | _ => none
  kind := fun j => match j with | 0 => .collector | 1 => .forker | _ => .pure
  pureLeaf := by
    intro j p h
    match j, h with
    | 1, h => cases h; decide
    | 2, h => cases h; decide
    | 3, h => cases h; decide
  parentLt := by
    intro j p h
    match j, h with
    | 1, h => cases h; decide
    | 2, h => cases h; decide
    | 3, h => cases h; decide

end OxiModel.Nest

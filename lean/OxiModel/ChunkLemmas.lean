import OxiModel.Basic
/- lemmas about `chunksExact` (Rust's `chunks_exact`) -/
namespace OxiModel

theorem chunksExactAux_fuel2 {α} (n : Nat) :
    ∀ (f1 f2 : Nat) (xs : List α), xs.length ≤ f1 → xs.length ≤ f2 →
      chunksExactAux n f1 xs = chunksExactAux n f2 xs := by
  intro f1
  induction f1 with
  | zero =>
    intro f2 xs h1 _
    have : xs = [] := List.eq_nil_of_length_eq_zero (by omega)
    subst this
    cases f2 <;> simp [chunksExactAux]
  | succ f ih =>
    intro f2 xs h1 h2
    cases f2 with
    | zero =>
      have : xs = [] := List.eq_nil_of_length_eq_zero (by omega)
      subst this
      simp [chunksExactAux]
    | succ g =>
      simp only [chunksExactAux]
      by_cases hc : n ≤ xs.length ∧ 0 < n
      · simp only [hc, and_self, if_true]
        congr 1
        apply ih
        · simp [List.length_drop]; omega
        · simp [List.length_drop]; omega
      · simp [hc]

theorem chunksExactAux_fuel {α} (n : Nat) (_hn : 0 < n) (fuel : Nat) (xs : List α) (h : xs.length ≤ fuel) :
    chunksExactAux n fuel xs = chunksExactAux n xs.length xs :=
  chunksExactAux_fuel2 n fuel xs.length xs h (Nat.le_refl _)

/-- a leading whole chunk is split off -/
theorem chunksExact_append {α} (n : Nat) (hn : 0 < n) (p rest : List α) (hp : p.length = n) :
    chunksExact n (p ++ rest) = p :: chunksExact n rest := by
  unfold chunksExact
  have hlen : (p ++ rest).length = n + rest.length := by simp [hp]
  rw [hlen]
  have : n + rest.length = (n - 1 + rest.length) + 1 := by omega
  rw [this]
  simp only [chunksExactAux]
  have hc : n ≤ (p ++ rest).length ∧ 0 < n := ⟨by omega, hn⟩
  simp only [hc, and_self, if_true]
  have ht : (p ++ rest).take n = p := List.take_left' hp
  have hd : (p ++ rest).drop n = rest := List.drop_left' hp
  rw [ht, hd]
  congr 1
  exact chunksExactAux_fuel n hn _ rest (by omega)

theorem chunksExact_nil {α} (n : Nat) : chunksExact n ([] : List α) = [] := rfl

/-- chunking a concatenation of equal-length pieces gives the pieces back -/
theorem chunksExact_flatten {α} (n : Nat) (hn : 0 < n) (ps : List (List α)) (h : ∀ p ∈ ps, p.length = n) :
    chunksExact n ps.flatten = ps := by
  induction ps with
  | nil => rfl
  | cons p ps ih =>
    simp only [List.flatten_cons]
    rw [chunksExact_append n hn p _ (h p List.mem_cons_self), ih (fun q hq => h q (List.mem_cons_of_mem _ hq))]

/-- data of a whole number of pixels is the concatenation of its chunks -/
theorem flatten_chunksExact {α} (n : Nat) (hn : 0 < n) :
    ∀ (k : Nat) (xs : List α), xs.length = k * n → (chunksExact n xs).flatten = xs ∧ ∀ p ∈ chunksExact n xs, p.length = n := by
  intro k
  induction k with
  | zero =>
    intro xs h
    have : xs = [] := List.eq_nil_of_length_eq_zero (by omega)
    subst this
    simp [chunksExact_nil]
  | succ k ih =>
    intro xs h
    have hsplit : xs = xs.take n ++ xs.drop n := (List.take_append_drop n xs).symm
    have hlt : n ≤ xs.length := by rw [h, Nat.add_mul]; omega
    have htl : (xs.take n).length = n := by simp [List.length_take]; omega
    have hdl : (xs.drop n).length = k * n := by simp [List.length_drop, h, Nat.add_mul]
    rw [hsplit, chunksExact_append n hn _ _ htl]
    obtain ⟨h1, h2⟩ := ih (xs.drop n) hdl
    constructor
    · simp only [List.flatten_cons, h1]
    · intro p hp
      rcases List.mem_cons.mp hp with rfl | hp
      · exact htl
      · exact h2 p hp

theorem chunksExact_length {α} (n : Nat) (hn : 0 < n) :
    ∀ (k : Nat) (xs : List α), xs.length = k * n → (chunksExact n xs).length = k := by
  intro k
  induction k with
  | zero =>
    intro xs h
    have : xs = [] := List.eq_nil_of_length_eq_zero (by omega)
    subst this
    simp [chunksExact_nil]
  | succ k ih =>
    intro xs h
    have hsplit : xs = xs.take n ++ xs.drop n := (List.take_append_drop n xs).symm
    have hlt : n ≤ xs.length := by rw [h, Nat.add_mul]; omega
    have htl : (xs.take n).length = n := by simp [List.length_take]; omega
    have hdl : (xs.drop n).length = k * n := by simp [List.length_drop, h, Nat.add_mul]
    rw [hsplit, chunksExact_append n hn _ _ htl, List.length_cons, ih (xs.drop n) hdl]

theorem chunksExact_append_whole {α} (n : Nat) (hn : 0 < n) :
    ∀ (k : Nat) (a b : List α), a.length = k * n → chunksExact n (a ++ b) = chunksExact n a ++ chunksExact n b := by
  intro k
  induction k with
  | zero =>
    intro a b h
    have : a = [] := List.eq_nil_of_length_eq_zero (by omega)
    subst this
    simp [chunksExact_nil]
  | succ k ih =>
    intro a b h
    have hsplit : a = a.take n ++ a.drop n := (List.take_append_drop n a).symm
    have hlt : n ≤ a.length := by rw [h, Nat.add_mul]; omega
    have htl : (a.take n).length = n := by simp [List.length_take]; omega
    have hdl : (a.drop n).length = k * n := by simp [List.length_drop, h, Nat.add_mul]
    rw [hsplit, List.append_assoc, chunksExact_append n hn _ _ htl, chunksExact_append n hn _ _ htl,
      ih (a.drop n) b hdl, List.cons_append]

/-! ### cutting and comparing concatenations -/

theorem exists_pieces {β} : ∀ (lens : List Nat) (X : List β), X.length = lens.sum →
    ∃ ps : List (List β), ps.map List.length = lens ∧ ps.flatten = X := by
  intro lens
  induction lens with
  | nil =>
    intro X h
    refine ⟨[], rfl, ?_⟩
    simp only [List.sum_nil] at h
    simp [List.eq_nil_of_length_eq_zero h]
  | cons n ns ih =>
    intro X h
    simp only [List.sum_cons] at h
    obtain ⟨ps, hps, hfl⟩ := ih (X.drop n) (by rw [List.length_drop]; omega)
    refine ⟨X.take n :: ps, ?_, ?_⟩
    · simp only [List.map_cons, List.length_take, hps]
      congr 1
      omega
    · simp only [List.flatten_cons, hfl, List.take_append_drop]

theorem flatten_inj {β} : ∀ (A B : List (List β)), A.map List.length = B.map List.length →
    A.flatten = B.flatten → A = B := by
  intro A
  induction A with
  | nil =>
    intro B hl _
    cases B with
    | nil => rfl
    | cons b bs => simp at hl
  | cons a as ih =>
    intro B hl hf
    cases B with
    | nil => simp at hl
    | cons b bs =>
      simp only [List.map_cons, List.cons.injEq] at hl
      simp only [List.flatten_cons] at hf
      obtain ⟨h1, h2⟩ := List.append_inj hf hl.1
      rw [h1, ih bs hl.2 h2]

theorem sum_lengths_const {β} (n : Nat) : ∀ ps : List (List β), (∀ p ∈ ps, p.length = n) →
    (ps.map List.length).sum = ps.length * n := by
  intro ps
  induction ps with
  | nil => intro _; simp
  | cons a as ih =>
    intro h
    simp only [List.map_cons, List.sum_cons, List.length_cons]
    rw [ih (fun p hp => h p (List.mem_cons_of_mem _ hp)), h a List.mem_cons_self, Nat.succ_mul]
    omega

/-- cutting into pixels = cutting into rows, then every row into pixels -/
theorem chunksExact_rows {β} (c w h : Nat) (hc : 0 < c) (hw : 0 < w) (data : List β) (hlen : data.length = h * (w * c)) :
    chunksExact c data = ((chunksExact (w * c) data).map (chunksExact c)).flatten := by
  have hwc : 0 < w * c := Nat.mul_pos hw hc
  obtain ⟨hfl, hpl⟩ := flatten_chunksExact (w * c) hwc h data hlen
  have hP : ∀ p ∈ ((chunksExact (w * c) data).map (chunksExact c)).flatten, p.length = c := by
    intro p hp
    obtain ⟨l, hl, hpl'⟩ := List.mem_flatten.mp hp
    obtain ⟨r, hr, rfl⟩ := List.mem_map.mp hl
    exact (flatten_chunksExact c hc w r (hpl r hr)).2 p hpl'
  have hflat : ((chunksExact (w * c) data).map (chunksExact c)).flatten.flatten = data := by
    rw [List.flatten_flatten, List.map_map]
    have : ∀ r ∈ chunksExact (w * c) data, (List.flatten ∘ chunksExact c) r = id r := by
      intro r hr
      exact (flatten_chunksExact c hc w r (hpl r hr)).1
    rw [List.map_congr_left this, List.map_id, hfl]
  have := chunksExact_flatten c hc _ hP
  rw [hflat] at this
  exact this

end OxiModel

import OxiModel.Basic
/- lemmas about `chunksExact` (Rust's `chunks_exact`) -/
namespace OxiModel

theorem chunksExactAux_fuel2 {α} (n : Nat) :
    ∀ (f1 f2 : Nat) (xs : List α), xs.length ≤ f1 → xs.length ≤ f2 →
      chunksExactAux n f1 xs = chunksExactAux n f2 xs := by
  intro f1
  induction f1 with
  | zero =>
    intro f2 xs h1 _
    have : xs = [] := List.eq_nil_of_length_eq_zero (by omega)
    subst this
    cases f2 <;> simp [chunksExactAux]
  | succ f ih =>
    intro f2 xs h1 h2
    cases f2 with
    | zero =>
      have : xs = [] := List.eq_nil_of_length_eq_zero (by omega)
      subst this
      simp [chunksExactAux]
    | succ g =>
      simp only [chunksExactAux]
      by_cases hc : n ≤ xs.length ∧ 0 < n
      · simp only [hc, and_self, if_true]
        congr 1
        apply ih
        · simp [List.length_drop]; omega
        · simp [List.length_drop]; omega
      · simp [hc]

theorem chunksExactAux_fuel {α} (n : Nat) (_hn : 0 < n) (fuel : Nat) (xs : List α) (h : xs.length ≤ fuel) :
    chunksExactAux n fuel xs = chunksExactAux n xs.length xs :=
  chunksExactAux_fuel2 n fuel xs.length xs h (Nat.le_refl _)

/-- a leading whole chunk is split off -/
theorem chunksExact_append {α} (n : Nat) (hn : 0 < n) (p rest : List α) (hp : p.length = n) :
    chunksExact n (p ++ rest) = p :: chunksExact n rest := by
  unfold chunksExact
  have hlen : (p ++ rest).length = n + rest.length := by simp [hp]
  rw [hlen]
  have : n + rest.length = (n - 1 + rest.length) + 1 := by omega
  rw [this]
  simp only [chunksExactAux]
  have hc : n ≤ (p ++ rest).length ∧ 0 < n := ⟨by omega, hn⟩
  simp only [hc, and_self, if_true]
  have ht : (p ++ rest).take n = p := List.take_left' hp
  have hd : (p ++ rest).drop n = rest := List.drop_left' hp
  rw [ht, hd]
  congr 1
  exact chunksExactAux_fuel n hn _ rest (by omega)

theorem chunksExact_nil {α} (n : Nat) : chunksExact n ([] : List α) = [] := rfl

/-- chunking a concatenation of equal-length pieces gives the pieces back -/
theorem chunksExact_flatten {α} (n : Nat) (hn : 0 < n) (ps : List (List α)) (h : ∀ p ∈ ps, p.length = n) :
    chunksExact n ps.flatten = ps := by
  induction ps with
  | nil => rfl
  | cons p ps ih =>
    simp only [List.flatten_cons]
    rw [chunksExact_append n hn p _ (h p List.mem_cons_self), ih (fun q hq => h q (List.mem_cons_of_mem _ hq))]

/-- data of a whole number of pixels is the concatenation of its chunks -/
theorem flatten_chunksExact {α} (n : Nat) (hn : 0 < n) :
    ∀ (k : Nat) (xs : List α), xs.length = k * n → (chunksExact n xs).flatten = xs ∧ ∀ p ∈ chunksExact n xs, p.length = n := by
  intro k
  induction k with
  | zero =>
    intro xs h
    have : xs = [] := List.eq_nil_of_length_eq_zero (by omega)
    subst this
    simp [chunksExact_nil]
  | succ k ih =>
    intro xs h
    have hsplit : xs = xs.take n ++ xs.drop n := (List.take_append_drop n xs).symm
    have hlt : n ≤ xs.length := by rw [h, Nat.add_mul]; omega
    have htl : (xs.take n).length = n := by simp [List.length_take]; omega
    have hdl : (xs.drop n).length = k * n := by simp [List.length_drop, h, Nat.add_mul]
    rw [hsplit, chunksExact_append n hn _ _ htl]
    obtain ⟨h1, h2⟩ := ih (xs.drop n) hdl
    constructor
    · simp only [List.flatten_cons, h1]
    · intro p hp
      rcases List.mem_cons.mp hp with rfl | hp
      · exact htl
      · exact h2 p hp

theorem chunksExact_length {α} (n : Nat) (hn : 0 < n) :
    ∀ (k : Nat) (xs : List α), xs.length = k * n → (chunksExact n xs).length = k := by
  intro k
  induction k with
  | zero =>
    intro xs h
    have : xs = [] := List.eq_nil_of_length_eq_zero (by omega)
    subst this
    simp [chunksExact_nil]
  | succ k ih =>
    intro xs h
    have hsplit : xs = xs.take n ++ xs.drop n := (List.take_append_drop n xs).symm
    have hlt : n ≤ xs.length := by rw [h, Nat.add_mul]; omega
    have htl : (xs.take n).length = n := by simp [List.length_take]; omega
    have hdl : (xs.drop n).length = k * n := by simp [List.length_drop, h, Nat.add_mul]
    rw [hsplit, chunksExact_append n hn _ _ htl, List.length_cons, ih (xs.drop n) hdl]

theorem chunksExact_append_whole {α} (n : Nat) (hn : 0 < n) :
    ∀ (k : Nat) (a b : List α), a.length = k * n → chunksExact n (a ++ b) = chunksExact n a ++ chunksExact n b := by
  intro k
  induction k with
  | zero =>
    intro a b h
    have : a = [] := List.eq_nil_of_length_eq_zero (by omega)
    subst this
    simp [chunksExact_nil]
  | succ k ih =>
    intro a b h
    have hsplit : a = a.take n ++ a.drop n := (List.take_append_drop n a).symm
    have hlt : n ≤ a.length := by rw [h, Nat.add_mul]; omega
    have htl : (a.take n).length = n := by simp [List.length_take]; omega
    have hdl : (a.drop n).length = k * n := by simp [List.length_drop, h, Nat.add_mul]
    rw [hsplit, List.append_assoc, chunksExact_append n hn _ _ htl, chunksExact_append n hn _ _ htl,
      ih (a.drop n) b hdl, List.cons_append]

end OxiModel

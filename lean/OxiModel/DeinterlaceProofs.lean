import OxiModel.Interlace
/-
  The de-interlacing state machine of /repo/src/interlace.rs (`deinterlace_bytes` / `deinterlace_bits`,
  model: `deStep`, `scatterLine`) as a refinement: every write puts the value the target picture has
  at that position, so agreement with the target only ever grows; a pass's lines are consumed in
  lattice-row order and `increment_pass` moves on to the next pass that has lines.
  Part A (this file) is independent of what the units are (bytes or bits).
-/
namespace OxiModel.DeProofs
open OxiModel

/-- position in the output row of unit `i` of a pass line -/
def idxOf (c xs dx i : Nat) : Nat := (i % c) + (xs + (i / c) * dx) * c

/-- cell `(y, j)` of the working lines / of the target rows -/
def cellA {α} (A : Array (Array α)) (y j : Nat) : Option α := (A[y]?).bind (·[j]?)
def cellL {α} (R : List (List α)) (y j : Nat) : Option α := (R[y]?).bind (·[j]?)

/-- **One scattered line**: if every unit of the line is the target row's value at the position it is
    written to (and that position exists), the scatter succeeds, keeps the row's size, keeps every
    agreement with the target and adds agreement at all written positions. -/
theorem scatter_agrees {α} (c : Nat) (pc : PassConst) (T : List α) :
    ∀ (U : List α) (k : Nat) (row : Array α), row.size = T.length →
      (∀ i, i < U.length → idxOf c pc.xShift pc.xStep (k + i) < T.length ∧
        T[idxOf c pc.xShift pc.xStep (k + i)]? = U[i]?) →
      ∃ row', (U.zipIdx k).foldlM (init := row) (fun row (p : α × Nat) =>
            let x := pc.xShift + (p.2 / c) * pc.xStep
            let idx := (p.2 % c) + x * c
            if idx < row.size then some (row.set! idx p.1) else none) = some row' ∧
        row'.size = T.length ∧ (∀ j : Nat, row[j]? = T[j]? → row'[j]? = T[j]?) ∧
        (∀ i, i < U.length → row'[idxOf c pc.xShift pc.xStep (k + i)]? = T[idxOf c pc.xShift pc.xStep (k + i)]?) := by
  intro U
  induction U with
  | nil =>
    intro k row hs _
    exact ⟨row, rfl, hs, fun _ h => h, fun i hi => absurd hi (by simp)⟩
  | cons u U ih =>
    intro k row hs hU
    have h0 := hU 0 (by simp)
    simp only [Nat.add_zero, List.getElem?_cons_zero] at h0
    obtain ⟨hlt, hval⟩ := h0
    have hidx : (k % c) + (pc.xShift + (k / c) * pc.xStep) * c = idxOf c pc.xShift pc.xStep k := rfl
    simp only [List.zipIdx_cons, List.foldlM_cons, hidx, hs, hlt, if_true]
    have hs1 : (row.set! (idxOf c pc.xShift pc.xStep k) u).size = T.length := by
      simp [hs]
    have hU1 : ∀ i, i < U.length → idxOf c pc.xShift pc.xStep (k + 1 + i) < T.length ∧
        T[idxOf c pc.xShift pc.xStep (k + 1 + i)]? = U[i]? := by
      intro i hi
      have := hU (i + 1) (by simp; omega)
      have e : k + (i + 1) = k + 1 + i := by omega
      rw [e] at this
      simpa using this
    obtain ⟨row', hrun, hsz, hkeep, hnew⟩ := ih (k + 1) _ hs1 hU1
    refine ⟨row', ?_, hsz, ?_, ?_⟩
    · exact hrun
    · intro j hj
      apply hkeep
      rw [Array.set!_eq_setIfInBounds, Array.getElem?_setIfInBounds]
      split
      · rename_i e
        subst e
        simp only [hs, hlt, if_true]
        exact hval.symm
      · exact hj
    · intro i hi
      cases i with
      | zero =>
        simp only [Nat.add_zero]
        apply hkeep
        rw [Array.set!_eq_setIfInBounds, Array.getElem?_setIfInBounds]
        simp only [hs, hlt, if_true]
        exact hval.symm
      | succ i =>
        have e : k + (i + 1) = k + 1 + i := by omega
        rw [e]
        exact hnew i (by simpa using hi)

theorem scatterLine_eq {α} (c : Nat) (pc : PassConst) (row : Array α) (U : List α) :
    scatterLine c pc row U = (U.zipIdx 0).foldlM (init := row) (fun row (p : α × Nat) =>
            let x := pc.xShift + (p.2 / c) * pc.xStep
            let idx := (p.2 % c) + x * c
            if idx < row.size then some (row.set! idx p.1) else none) := by
  unfold scatterLine
  congr

/-- the working lines agree with the target rows `R` on the set `S`, and have the target's shape -/
structure Inv {α} (R : List (List α)) (A : Array (Array α)) (S : Nat → Nat → Prop) : Prop where
  size : A.size = R.length
  rows : ∀ y : Nat, (A[y]?).map (·.size) = (R[y]?).map (·.length)
  agree : ∀ y j, S y j → cellA A y j = cellL R y j

/-- the control part of `deStep` after a line has been scattered into row `y` -/
def advance {α} (w h p y : Nat) (pc : PassConst) (A : Array (Array α)) : Option (DeState α) :=
  if y + pc.yStep ≥ h then
    match incrementPass p w h with
    | none => some ⟨A, p, y, true⟩
    | some q =>
      match interlacedConstants q with
      | none => none
      | some pc' => some ⟨A, q, pc'.yShift, false⟩
  else some ⟨A, p, y + pc.yStep, false⟩

/-- **One step of the machine**: a line whose units are the target's values at the positions they go to
    is scattered into row `y`; agreement with the target grows by exactly those positions. -/
theorem deStep_line {α} (w h c : Nat) (unitsOf : PassConst → Bytes → Option (List α)) (R : List (List α))
    (A : Array (Array α)) (S : Nat → Nat → Prop) (p y : Nat) (pc : PassConst) (line : Bytes) (U : List α)
    (hinv : Inv R A S) (hpc : interlacedConstants p = some pc) (hu : unitsOf pc line = some U)
    (hy : y < R.length)
    (hU : ∀ i, i < U.length → ∃ v, cellL R y (idxOf c pc.xShift pc.xStep i) = some v ∧ U[i]? = some v) :
    ∃ A', Inv R A' (fun y' j => S y' j ∨ (y' = y ∧ ∃ i, i < U.length ∧ j = idxOf c pc.xShift pc.xStep i)) ∧
      deStep w h c unitsOf ⟨A, p, y, false⟩ line = advance w h p y pc A' := by
  have hyA : y < A.size := by rw [hinv.size]; exact hy
  -- the target row
  have hT : R[y]? = some R[y] := List.getElem?_eq_getElem hy
  have hrowsz : A[y].size = R[y].length := by
    have := hinv.rows y
    rw [hT, Array.getElem?_eq_getElem hyA] at this
    simpa using this
  have hU' : ∀ i, i < U.length → idxOf c pc.xShift pc.xStep (0 + i) < R[y].length ∧
      R[y][idxOf c pc.xShift pc.xStep (0 + i)]? = U[i]? := by
    intro i hi
    obtain ⟨v, hv, hui⟩ := hU i hi
    simp only [cellL, hT, Option.bind_some] at hv
    rw [Nat.zero_add]
    refine ⟨?_, by rw [hv, hui]⟩
    exact (List.getElem?_eq_some_iff.mp hv).1
  obtain ⟨row', hrun, hsz, hkeep, hnew⟩ := scatter_agrees c pc R[y] U 0 A[y] hrowsz hU'
  refine ⟨A.set y row' hyA, ?_, ?_⟩
  · refine ⟨?_, ?_, ?_⟩
    · simp [hinv.size]
    · intro y'
      rw [Array.getElem?_set hyA]
      split
      · rename_i e; subst e
        simp [hT, hsz]
      · exact hinv.rows y'
    · intro y' j hS
      simp only [cellA]
      rw [Array.getElem?_set hyA]
      split
      · rename_i e; subst e
        simp only [Option.bind_some, cellL, hT]
        rcases hS with hS | ⟨_, i, hi, rfl⟩
        · apply hkeep
          have := hinv.agree y j hS
          simpa [cellA, cellL, hT, Array.getElem?_eq_getElem hyA] using this
        · have := hnew i hi
          rw [Nat.zero_add] at this
          exact this
      · rename_i ne
        rcases hS with hS | ⟨e, _⟩
        · exact hinv.agree y' j hS
        · exact absurd e.symm ne
  · unfold deStep advance
    simp only [hpc, hu, hyA, dite_true, scatterLine_eq, hrun]
    rfl

/-- **The lines of one pass**: starting at row `y0` of pass `p`, the `n + 1` lines of the rows
    `y0, y0 + dy, …` (the last one being the last row of the pass below `h`) are scattered one after
    another; afterwards the machine is where `advance` puts it after the last row. -/
theorem run_pass_rows {α} (w h c : Nat) (unitsOf : PassConst → Bytes → Option (List α)) (R : List (List α))
    (p : Nat) (pc : PassConst) (lineOf : Nat → Bytes) (Uof : Nat → List α)
    (hh : R.length = h) (hpc : interlacedConstants p = some pc)
    (hunits : ∀ y, y < h → unitsOf pc (lineOf y) = some (Uof y))
    (hU : ∀ y, y < h → ∀ i, i < (Uof y).length →
      ∃ v, cellL R y (idxOf c pc.xShift pc.xStep i) = some v ∧ (Uof y)[i]? = some v) :
    ∀ (n y0 : Nat) (A : Array (Array α)) (S : Nat → Nat → Prop), Inv R A S →
      y0 + n * pc.yStep < h → h ≤ y0 + n * pc.yStep + pc.yStep →
      ∃ A', Inv R A' (fun y' j => S y' j ∨
            (y' ∈ List.range' y0 (n + 1) pc.yStep ∧ ∃ i, i < (Uof y').length ∧ j = idxOf c pc.xShift pc.xStep i)) ∧
        ((List.range' y0 (n + 1) pc.yStep).map lineOf).foldlM (deStep w h c unitsOf) ⟨A, p, y0, false⟩ =
          advance w h p (y0 + n * pc.yStep) pc A' := by
  intro n
  induction n with
  | zero =>
    intro y0 A S hinv hlt hge
    simp only [Nat.zero_mul, Nat.add_zero] at hlt hge ⊢
    obtain ⟨A', hinv', hstep⟩ := deStep_line w h c unitsOf R A S p y0 pc (lineOf y0) (Uof y0) hinv hpc
      (hunits y0 hlt) (by omega) (hU y0 hlt)
    refine ⟨A', ?_, ?_⟩
    · refine ⟨hinv'.size, hinv'.rows, ?_⟩
      intro y' j hS
      apply hinv'.agree
      rcases hS with hS | ⟨hm, hi⟩
      · exact Or.inl hS
      · right
        simp only [Nat.zero_add, List.range'_one, List.mem_singleton] at hm
        subst hm
        exact ⟨rfl, hi⟩
    · simp only [Nat.zero_add, List.range'_one, List.map_cons, List.map_nil, List.foldlM_cons, List.foldlM_nil, hstep]
      cases advance w h p y0 pc A' <;> rfl
  | succ n ih =>
    intro y0 A S hinv hlt hge
    have e : (n + 1) * pc.yStep = n * pc.yStep + pc.yStep := Nat.succ_mul n pc.yStep
    rw [e] at hlt hge
    obtain ⟨A1, hinv1, hstep⟩ := deStep_line w h c unitsOf R A S p y0 pc (lineOf y0) (Uof y0) hinv hpc
      (hunits y0 (by omega)) (by omega) (hU y0 (by omega))
    have hadv : advance w h p y0 pc A1 = some ⟨A1, p, y0 + pc.yStep, false⟩ := by
      unfold advance
      have : ¬ (y0 + pc.yStep ≥ h) := by omega
      simp only [this, if_false]
    obtain ⟨A', hinv', hrun⟩ := ih (y0 + pc.yStep) A1 _ hinv1 (by omega) (by omega)
    refine ⟨A', ?_, ?_⟩
    · refine ⟨hinv'.size, hinv'.rows, ?_⟩
      intro y' j hS
      apply hinv'.agree
      rcases hS with hS | ⟨hm, hi⟩
      · exact Or.inl (Or.inl hS)
      · rw [List.range'_succ, List.mem_cons] at hm
        rcases hm with rfl | hm
        · exact Or.inl (Or.inr ⟨rfl, hi⟩)
        · exact Or.inr ⟨hm, hi⟩
    · rw [List.range'_succ, List.map_cons, List.foldlM_cons, hstep, hadv]
      have e2 : y0 + (n * pc.yStep + pc.yStep) = y0 + pc.yStep + n * pc.yStep := by omega
      rw [e, e2]
      exact hrun

end OxiModel.DeProofs

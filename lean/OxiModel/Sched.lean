import OxiModel.Basic
/-
  The evaluator's spawn / yield / collect protocol (/repo/src/evaluate.rs:92-101, 118-191) as a
  transition system: jobs are spawned into the spawner's local queue, started by the spawner itself
  (`yield_local` in the collection loop) or by other workers that steal them, and each holds a
  channel sender until it finishes; the collector spins until every job has *started* and only then
  blocks on the channel, which disconnects when the last sender is dropped.
  rayon and crossbeam are parameters (contract R1): a stolen job eventually runs on its thief.
-/
namespace OxiModel

inductive JobState
  | queued            -- in the spawner's queue (or the pool's injector), not started
  | runningLocal      -- started by the collector itself through `yield_local` (runs to completion inside it)
  | runningRemote     -- started on another worker
  | finished          -- closure returned: its sender is dropped
  deriving DecidableEq, Repr

inductive Phase
  | spawning          -- `perform_reductions` / `try_image` still submitting
  | yielding          -- in `while executed < nth { yield_local() }`
  | receiving         -- blocked in `eval_recv.into_iter()`
  | returned          -- `get_best_candidate` returned
  deriving DecidableEq, Repr

structure SchedState where
  phase : Phase
  jobs : List JobState
  /-- is the collecting thread a worker of the pool the jobs were spawned into? -/
  inPool : Bool
  deriving DecidableEq, Repr

def SchedState.executed (s : SchedState) : Nat := (s.jobs.filter (· ≠ .queued)).length
def SchedState.nth (s : SchedState) : Nat := s.jobs.length
def SchedState.sendersLeft (s : SchedState) : Nat := (s.jobs.filter (· ≠ .finished)).length

inductive SchedStep : SchedState → SchedState → Prop
  /-- `try_image`: a job is spawned -/
  | submit (s : SchedState) (h : s.phase = .spawning) :
      SchedStep s { s with jobs := s.jobs ++ [.queued] }
  /-- `get_best_candidate` called: the collector's own sender is dropped, the spin loop starts -/
  | collect (s : SchedState) (h : s.phase = .spawning) : SchedStep s { s with phase := .yielding }
  /-- `yield_local` picks a queued job of the local queue (only possible for a pool worker) and runs it -/
  | yieldRun (s : SchedState) (i : Nat) (h : s.phase = .yielding) (hp : s.inPool = true)
      (hq : s.jobs[i]? = some .queued) : SchedStep s { s with jobs := s.jobs.set i .finished }
  /-- another worker steals / takes a queued job and starts it (any time) -/
  | steal (s : SchedState) (i : Nat) (hq : s.jobs[i]? = some .queued) :
      SchedStep s { s with jobs := s.jobs.set i .runningRemote }
  /-- a remotely running job finishes -/
  | remoteFinish (s : SchedState) (i : Nat) (hq : s.jobs[i]? = some .runningRemote) :
      SchedStep s { s with jobs := s.jobs.set i .finished }
  /-- the spin loop exits: every job has started -/
  | block (s : SchedState) (h : s.phase = .yielding) (he : s.executed = s.nth) :
      SchedStep s { s with phase := .receiving }
  /-- the channel is disconnected: the collector returns -/
  | ret (s : SchedState) (h : s.phase = .receiving) (hs : s.sendersLeft = 0) :
      SchedStep s { s with phase := .returned }

inductive SchedReach (s0 : SchedState) : SchedState → Prop
  | refl : SchedReach s0 s0
  | step {s s'} : SchedReach s0 s → SchedStep s s' → SchedReach s0 s'

def schedInit (inPool : Bool) : SchedState := ⟨.spawning, [], inPool⟩

/-- termination measure: phases left, then jobs not started, then jobs not finished -/
def SchedState.phaseRank (s : SchedState) : Nat :=
  match s.phase with | .spawning => 3 | .yielding => 2 | .receiving => 1 | .returned => 0

/-! ## replay of an event log (driver) -/

inductive SchedEvent
  | submit | collectStart (submitted : Nat) | jobStart (nth : Nat) (sameThread : Bool) | jobEnd (nth : Nat)
  | collectEnd
  deriving Repr

/-- replays the events of one evaluator; every event must be an enabled transition -/
def schedReplay (inPool : Bool) (evs : List SchedEvent) : Except String SchedState :=
  evs.foldlM (fun (s : SchedState) ev =>
    match ev with
    | .submit => if s.phase = .spawning then .ok { s with jobs := s.jobs ++ [.queued] } else .error "submit-after-collect"
    | .collectStart n =>
      if s.phase ≠ .spawning then .error "collect-twice"
      else if n ≠ s.nth then .error "submitted-count-mismatch" else .ok { s with phase := .yielding }
    | .jobStart i same =>
      match s.jobs[i]? with
      | some .queued =>
        if same then
          if s.phase = .yielding ∧ s.inPool then .ok { s with jobs := s.jobs.set i .runningLocal }
          else .error "local-start-outside-yield-loop"
        else .ok { s with jobs := s.jobs.set i .runningRemote }
      | _ => .error "job-started-twice-or-unknown"
    | .jobEnd i =>
      match s.jobs[i]? with
      | some .runningLocal => .ok { s with jobs := s.jobs.set i .finished }
      | some .runningRemote => .ok { s with jobs := s.jobs.set i .finished }
      | _ => .error "job-ended-without-start"
    | .collectEnd =>
      if s.phase ≠ .yielding ∧ s.phase ≠ .receiving then .error "collect-end-out-of-phase"
      else if s.executed ≠ s.nth then .error "collected-before-all-jobs-started"
      else if s.sendersLeft ≠ 0 then .error "collected-before-all-jobs-finished"
      else .ok { s with phase := .returned })
    (schedInit inPool)

end OxiModel

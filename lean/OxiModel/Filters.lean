import OxiModel.Basic
/-
  Row filters.

  * `Spec.*`  : the PNG specification's filter / reconstruction functions, written generically over a
                predictor `pred left up upleft`.
  * `filterLine`, `unfilterLine`, `paeth` : literal models of `RowFilter::filter_line`,
                `RowFilter::unfilter_line`, `paeth_predictor` in `/repo/src/filters.rs`.
-/
namespace OxiModel

/-! ## Specification layer -/
namespace Spec

/-- PaethPredictor of the PNG specification (integers, ties in the order a, b, c). -/
def paeth (a b c : UInt8) : UInt8 :=
  let p : Int := (a.toNat : Int) + b.toNat - c.toNat
  let pa := (p - a.toNat).natAbs
  let pb := (p - b.toNat).natAbs
  let pc := (p - c.toNat).natAbs
  if pa ≤ pb ∧ pa ≤ pc then a else if pb ≤ pc then b else c

/-- Predictor of filter type `ft` as a function of (left, up, upper-left). -/
def pred (ft : Nat) (a b c : UInt8) : UInt8 :=
  match ft with
  | 0 => 0
  | 1 => a
  | 2 => b
  | 3 => UInt8.ofNat ((a.toNat + b.toNat) / 2)
  | 4 => paeth a b c
  | _ => 0

/-- `Filt(x) = Orig(x) - pred(Orig(a), Orig(b), Orig(c))`, bytes to the left of the row are 0. -/
def encode (p : UInt8 → UInt8 → UInt8 → UInt8) (bpp : Nat) (cur prior : Bytes) : Bytes :=
  (List.range cur.length).map fun i =>
    cur.getD i 0 - p (if bpp ≤ i then cur.getD (i - bpp) 0 else 0) (prior.getD i 0)
                     (if bpp ≤ i then prior.getD (i - bpp) 0 else 0)

/-- `Recon(x) = Filt(x) + pred(Recon(a), Recon(b), Recon(c))`; `acc` is the reconstructed prefix. -/
def decodeAux (p : UInt8 → UInt8 → UInt8 → UInt8) (bpp : Nat) (prior : Bytes) : Bytes → Bytes → Bytes
  | acc, [] => acc
  | acc, x :: rest =>
    let i := acc.length
    let v := x + p (if bpp ≤ i then acc.getD (i - bpp) 0 else 0) (prior.getD i 0)
                   (if bpp ≤ i then prior.getD (i - bpp) 0 else 0)
    decodeAux p bpp prior (acc ++ [v]) rest

def decode (p : UInt8 → UInt8 → UInt8 → UInt8) (bpp : Nat) (filt prior : Bytes) : Bytes :=
  decodeAux p bpp prior [] filt

/-- Reconstruction of one scan line per the specification; filter types above 4 are illegal. -/
def recon (ft : Nat) (bpp : Nat) (filt prior : Bytes) : Option Bytes :=
  if ft ≤ 4 then some (decode (pred ft) bpp filt prior) else none

end Spec

/-! ## Model of `/repo/src/filters.rs` -/

/-- `paeth_predictor` (i32 arithmetic; no overflow is possible for byte operands). -/
def paeth (a b c : UInt8) : UInt8 :=
  let p : Int := (a.toNat : Int) + (b.toNat : Int) - (c.toNat : Int)
  let pa := (p - (a.toNat : Int)).natAbs
  let pb := (p - (b.toNat : Int)).natAbs
  let pc := (p - (c.toNat : Int)).natAbs
  if pa ≤ pb ∧ pa ≤ pc then a else if pb ≤ pc then b else c

/-- `((u16::from(x) + u16::from(y)) >> 1) as u8` -/
def avg (x y : UInt8) : UInt8 := UInt8.ofNat ((x.toNat + y.toNat) / 2)

/-- Body (without the leading filter-type byte) written by `filter_line` for the five standard
    filter types; `none` models the two `assert!`s at the top of the function (and `unreachable!`). -/
def filterLineBody (ft bpp : Nat) (data prev : Bytes) : Option Bytes :=
  if data.length < bpp ∨ data.length ≠ prev.length then none else
  match ft with
  | 0 => some data
  | 1 => some (data.take bpp ++ List.zipWith (fun cur last => cur - last) (data.drop bpp) data)
  | 2 => some (List.zipWith (fun cur last => cur - last) data prev)
  | 3 => some ((List.range data.length).map fun i =>
      if bpp ≤ i then data.getD i 0 - avg (data.getD (i - bpp) 0) (prev.getD i 0)
      else data.getD i 0 - (prev.getD i 0 >>> 1))
  | 4 => some ((List.range data.length).map fun i =>
      if bpp ≤ i then data.getD i 0 - paeth (data.getD (i - bpp) 0) (prev.getD i 0) (prev.getD (i - bpp) 0)
      else data.getD i 0 - prev.getD i 0)
  | _ => none

/-- `filter_line` without alpha optimisation: the filter byte followed by the body. -/
def filterLine (ft bpp : Nat) (data prev : Bytes) : Option Bytes :=
  (filterLineBody ft bpp data prev).map (UInt8.ofNat ft :: ·)

/-- One step of the `unfilter_line` loops: `buf` is what has been pushed so far. -/
def unfilterStep (ft bpp : Nat) (prev buf : Bytes) (cur : UInt8) : UInt8 :=
  let i := buf.length
  match ft with
  | 0 => cur
  | 1 => match (if bpp ≤ i then buf[i - bpp]? else none) with
         | some b => cur + b
         | none => cur
  | 2 => cur + prev.getD i 0
  | 3 => match (if bpp ≤ i then buf[i - bpp]? else none) with
         | some b => cur + avg b (prev.getD i 0)
         | none => cur + (prev.getD i 0 >>> 1)
  | 4 => match (if bpp ≤ i then some (buf[i - bpp]?, prev[i - bpp]?) else none) with
         | some (some left, some leftUp) => cur + paeth left (prev.getD i 0) leftUp
         | _ => cur + prev.getD i 0
  | _ => cur

def unfilterAux (ft bpp : Nat) (prev : Bytes) : Bytes → Bytes → Bytes
  | buf, [] => buf
  | buf, cur :: rest => unfilterAux ft bpp prev (buf ++ [unfilterStep ft bpp prev buf cur]) rest

/-- `unfilter_line`: `none` = panic (asserts), `some none` = `Err(InvalidData)`. -/
def unfilterLine (ft bpp : Nat) (data prev : Bytes) : Option (Option Bytes) :=
  if data.length < bpp ∨ data.length ≠ prev.length then none else
  if ft ≤ 4 then some (some (unfilterAux ft bpp prev [] data)) else some none

/-! ## Alpha optimisation of a scan line (`RowFilter::optimize_alpha`) -/

def pxTransparent (colorBytes : Nat) (px : Bytes) : Bool := (px.drop colorBytes).all (· = 0)

/-- colour bytes the rewrite gives to the fully transparent pixel `i` (`acc` = pixels already
    processed, i.e. `pixels[0..i]` after mutation) -/
def alphaColour (ft colorBytes i : Nat) (pixels prevPixels acc : List Bytes) (firstOpaque : Nat) : Bytes :=
  let up := (prevPixels.getD i []).take colorBytes
  match ft with
  | 1 => ((if i = 0 then pixels.getD firstOpaque [] else acc.getD (i - 1) []).take colorBytes)
  | 2 => up
  | 3 => if i = 0 then up.map (fun (x : UInt8) => x >>> (1 : UInt8))
         else List.zipWith avg ((acc.getD (i - 1) []).take colorBytes) up
  | 4 => if i = 0 then List.zipWith (fun a b => if a ≤ b then a else b) ((pixels.getD firstOpaque []).take colorBytes) up
         else (List.range colorBytes).map fun j =>
           paeth ((acc.getD (i - 1) []).getD j 0) ((prevPixels.getD i []).getD j 0) ((prevPixels.getD (i - 1) []).getD j 0)
  | _ => (pixels.getD i []).take colorBytes

def optimizeAlphaPixels (ft colorBytes : Nat) (pixels prevPixels : List Bytes) : List Bytes :=
  let firstOpaque := (pixels.findIdx? fun px => (px.drop colorBytes).any (· ≠ 0)).getD 0
  pixels.zipIdx.foldl (fun acc (px, i) =>
    if pxTransparent colorBytes px then
      acc ++ [alphaColour ft colorBytes i pixels prevPixels acc firstOpaque ++ px.drop colorBytes]
    else acc ++ [px]) []

/-- `optimize_alpha`: the rewritten line (bytes after the last whole pixel are untouched) -/
def optimizeAlpha (ft bpp : Nat) (data prev : Bytes) (colorBytes : Nat) : Bytes :=
  if ft = 0 ∨ ft > 4 then data else
  let pixels := chunksExact bpp data
  let prevPixels := chunksExact bpp prev
  (optimizeAlphaPixels ft colorBytes pixels prevPixels).flatten ++ data.drop (bpp * pixels.length)

/-- `filter_line` with alpha optimisation: `(line data after the rewrite, filtered line incl. type byte)` -/
def filterLineAlpha (ft bpp : Nat) (data prev : Bytes) (alphaBytes : Nat) : Option (Bytes × Bytes) :=
  if data.length < bpp ∨ data.length ≠ prev.length then none else
  let data' := if alphaBytes ≠ 0 then optimizeAlpha ft bpp data prev (bpp - alphaBytes) else data
  (filterLine ft bpp data' prev).map fun out => (data', out)

end OxiModel


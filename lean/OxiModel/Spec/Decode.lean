import OxiModel.Reductions
import OxiModel.Spec.Pixel
/-
  Specification layer: the picture an in-memory image (samples of at least 8 bits) stands for, as
  the list of its pixels' 16-bit RGBA meanings in storage order. Geometry (where each stored pixel
  sits: row-major, or the Adam7 order) is a function of width, height and the interlace flag only, so
  two images with the same header geometry and the same storage-order colours are the same picture.
-/
namespace OxiModel.Spec
open OxiModel

/-- samples (one per channel) of a stored pixel with 8- or 16-bit samples -/
def samplesOf (depth : Nat) (px : Bytes) : List Nat :=
  if depth = 16 then (pairs16 px).map fun p => p.1.toNat * 256 + p.2.toNat else px.map (·.toNat)

/-- stored pixels, in storage order -/
def storagePixels (i : Img) : List Bytes := chunksExact i.bppBytes i.data

/-- their meanings -/
def pixelColours (i : Img) : List Px :=
  (storagePixels i).map fun px => colourOf i.ihdr.ct i.ihdr.depth (samplesOf i.ihdr.depth px)

/-- same picture: same geometry and the same colour at every stored position -/
def samePicture (a b : Img) : Prop :=
  a.ihdr.width = b.ihdr.width ∧ a.ihdr.height = b.ihdr.height ∧ a.ihdr.interlaced = b.ihdr.interlaced ∧
  pixelColours a = pixelColours b

end OxiModel.Spec

import OxiModel.Reductions
import OxiModel.Spec.Pixel
/-
  Specification layer: the picture an in-memory image (samples of at least 8 bits) stands for, as
  the list of its pixels' 16-bit RGBA meanings in storage order. Geometry (where each stored pixel
  sits: row-major, or the Adam7 order) is a function of width, height and the interlace flag only, so
  two images with the same header geometry and the same storage-order colours are the same picture.
-/
namespace OxiModel.Spec
open OxiModel

/-- samples (one per channel) of a stored pixel with 8- or 16-bit samples -/
def samplesOf (depth : Nat) (px : Bytes) : List Nat :=
  if depth = 16 then (pairs16 px).map fun p => p.1.toNat * 256 + p.2.toNat else px.map (·.toNat)

/-- stored pixels, in storage order -/
def storagePixels (i : Img) : List Bytes := chunksExact i.bppBytes i.data

/-- their meanings -/
def pixelColours (i : Img) : List Px :=
  (storagePixels i).map fun px => colourOf i.ihdr.ct i.ihdr.depth (samplesOf i.ihdr.depth px)

/-- same picture: same geometry and the same colour at every stored position -/
def samePicture (a b : Img) : Prop :=
  a.ihdr.width = b.ihdr.width ∧ a.ihdr.height = b.ihdr.height ∧ a.ihdr.interlaced = b.ihdr.interlaced ∧
  pixelColours a = pixelColours b

theorem samePicture_refl (a : Img) : samePicture a a := ⟨rfl, rfl, rfl, rfl⟩
theorem samePicture_symm {a b : Img} (h : samePicture a b) : samePicture b a :=
  ⟨h.1.symm, h.2.1.symm, h.2.2.1.symm, h.2.2.2.symm⟩
theorem samePicture_trans {a b c : Img} (h1 : samePicture a b) (h2 : samePicture b c) : samePicture a c :=
  ⟨h1.1.trans h2.1, h1.2.1.trans h2.2.1, h1.2.2.1.trans h2.2.2.1, h1.2.2.2.trans h2.2.2.2⟩

/-- C03's relation on whole images: same geometry, as many stored pixels, and at every stored
    position the same alpha and - unless the pixel is fully transparent - the same colour -/
def sameVisiblePicture (a b : Img) : Prop :=
  a.ihdr.width = b.ihdr.width ∧ a.ihdr.height = b.ihdr.height ∧ a.ihdr.interlaced = b.ihdr.interlaced ∧
  (pixelColours a).length = (pixelColours b).length ∧
  ∀ p ∈ List.zip (pixelColours a) (pixelColours b), alphaEq p.1 p.2

/-- the `8 / depth` samples packed in one byte, most significant first (PNG specification, 7.2) -/
def subSamples (depth : Nat) (b : UInt8) : List Nat :=
  (List.range (8 / depth)).map fun k => (b.toNat / 2 ^ (8 - depth * (k + 1))) % 2 ^ depth

/-- the picture of an image with fewer than 8 bits per sample (one channel): per scan line, the first
    `pixels` samples of the line's bytes (the rest of the last byte is padding) -/
def lowColours (ct : ColorType) (depth : Nat) (lines : List (UInt8 × Bytes × Option Nat × Nat)) : List Px :=
  lines.flatMap fun l => ((l.2.1.flatMap (subSamples depth)).take l.2.2.2).map fun v => colourOf ct depth [v]

end OxiModel.Spec

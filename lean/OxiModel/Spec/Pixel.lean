import OxiModel.Image
/-
  Specification layer: what a stored pixel *means* — 16-bit RGBA — per the PNG specification
  (sample scaling, colour-key and palette transparency).
-/
namespace OxiModel.Spec

structure Px where
  r : Nat
  g : Nat
  b : Nat
  a : Nat
  deriving DecidableEq, Repr, Inhabited

/-- a `depth`-bit sample at full 16-bit precision: `v * 65535 / (2^depth - 1)` (exact for 1,2,4,8,16) -/
def scaleTo16 (depth v : Nat) : Nat := v * 65535 / (2 ^ depth - 1)

/-- decoders look only at the low `depth` bits of a colour-key component -/
def keyComponent (depth k : Nat) : Nat := k % 2 ^ depth

/-- Meaning of one pixel given as its list of samples (one per channel). -/
def colourOf (ct : ColorType) (depth : Nat) (s : List Nat) : Px :=
  match ct with
  | .gray t =>
    let v := s.getD 0 0
    let g := scaleTo16 depth v
    ⟨g, g, g, if t.map (keyComponent depth) = some v then 0 else 65535⟩
  | .rgb t =>
    let (r, g, b) := (s.getD 0 0, s.getD 1 0, s.getD 2 0)
    ⟨scaleTo16 depth r, scaleTo16 depth g, scaleTo16 depth b,
     if t.map (fun k => (keyComponent depth k.1, keyComponent depth k.2.1, keyComponent depth k.2.2)) = some (r, g, b)
     then 0 else 65535⟩
  | .indexed p =>
    match p[s.getD 0 0]? with
    | some e => ⟨e.r.toNat * 257, e.g.toNat * 257, e.b.toNat * 257, e.a.toNat * 257⟩
    | none => ⟨0, 0, 0, 65535⟩       -- out-of-range index: not defined by the specification
  | .grayAlpha =>
    let g := scaleTo16 depth (s.getD 0 0)
    ⟨g, g, g, scaleTo16 depth (s.getD 1 0)⟩
  | .rgba =>
    ⟨scaleTo16 depth (s.getD 0 0), scaleTo16 depth (s.getD 1 0), scaleTo16 depth (s.getD 2 0),
     scaleTo16 depth (s.getD 3 0)⟩

/-- C03's relation: same alpha, and same colour unless fully transparent -/
def alphaEq (p q : Px) : Prop := p.a = q.a ∧ (p.a ≠ 0 → p = q)

end OxiModel.Spec

import OxiModel.Basic
/- CRC-32 (ISO 3309 / PNG annex D), bit by bit. Contract D4 ties libdeflate's table-driven
   implementation to this definition (compared on every generated chunk). -/
namespace OxiModel.Spec

def crcStepBit (c : UInt32) : UInt32 :=
  if c &&& 1 = 1 then (c >>> 1) ^^^ 0xEDB88320 else c >>> 1

def crcByte (c : UInt32) (b : UInt8) : UInt32 :=
  let c := c ^^^ b.toUInt32
  crcStepBit (crcStepBit (crcStepBit (crcStepBit (crcStepBit (crcStepBit (crcStepBit (crcStepBit c)))))))

def crc32 (bs : Bytes) : Nat := ((bs.foldl crcByte 0xFFFFFFFF) ^^^ 0xFFFFFFFF).toNat

end OxiModel.Spec

import OxiModel.Chunks
/-
  Command line (/repo/src/main.rs `parse_opts_into_struct`, `collect_files`, exit status;
  /repo/src/options.rs presets) and the manual's description of it (MANUAL.txt).
-/
namespace OxiModel

inductive Deflater
  | lib (level : Nat)
  | zopfli (iterations : Nat)
  deriving DecidableEq, Repr

/-- `oxipng::Options` (the fields the command line can set) -/
structure CliOptions where
  fixErrors : Bool
  force : Bool
  filter : List Nat                -- insertion order of the IndexSet
  interlace : Option Bool          -- none = keep
  optimizeAlpha : Bool
  bitDepth : Bool
  colorType : Bool
  palette : Bool
  grayscale : Bool
  idatRecoding : Bool
  scale16 : Bool
  strip : StripChunks
  deflate : Deflater
  fastEvaluation : Bool
  timeout : Option Nat
  deriving DecidableEq, Repr

def insertUnique (l : List Nat) (x : Nat) : List Nat := if l.contains x then l else l ++ [x]

/-- `Options::default` -/
def defaultOptions : CliOptions :=
  ⟨false, false, [0, 1, 6, 7], some false, false, true, true, true, true, true, false, .none, .lib 11, true, none⟩

def setLevel (o : CliOptions) (l : Nat) : CliOptions :=
  match o.deflate with
  | .lib _ => { o with deflate := .lib l }
  | _ => o

/-- `Options::from_preset` (`apply_preset_n`) -/
def fromPreset (level : Nat) : CliOptions :=
  let d := defaultOptions
  let p3 (o : CliOptions) : CliOptions := { o with fastEvaluation := false, filter := [0, 7, 8, 9] }
  let p5 (o : CliOptions) : CliOptions :=
    setLevel { o with fastEvaluation := false,
                      filter := insertUnique (insertUnique (insertUnique (insertUnique o.filter 2) 5) 8) 9 } 12
  match level with
  | 0 => setLevel { d with filter := [] } 5
  | 1 => setLevel { d with filter := [] } 10
  | 2 => d
  | 3 => p3 d
  | 4 => p3 (setLevel d 12)
  | 5 => p5 d
  | _ => p5 { d with filter := insertUnique (insertUnique d.filter 3) 4 }

inductive StripArg
  | safe | all | list (names : List String)
  deriving DecidableEq, Repr

/-- what clap hands to `parse_opts_into_struct`: presence and values of the documented flags -/
structure Flags where
  opt : Option Nat := none              -- `-o n` (7 stands for "max")
  filters : Option (List Nat) := none   -- `-f`, already expanded by the value parser
  timeout : Option Nat := none
  alpha : Bool := false
  scale16 : Bool := false
  fast : Bool := false
  force : Bool := false
  fix : Bool := false
  nb : Bool := false
  nc : Bool := false
  np : Bool := false
  ng : Bool := false
  nx : Bool := false
  nz : Bool := false
  interlace : Option (Option Bool) := none   -- `-i keep` = some none
  keep : Option (List String) := none
  strip : Option StripArg := none
  stripSafe : Bool := false
  zopfli : Bool := false
  zi : Nat := 15
  zc : Option Nat := none
  deriving Repr

def forbiddenStrip : List Bytes := [nm "IHDR", nm "IDAT", nm "tRNS", nm "PLTE", nm "IEND"]

/-- `parse_chunk_name`: trimmed, exactly four bytes -/
def parseChunkName (s : String) : Option Bytes :=
  let b := nm s.trimAscii.toString
  if b.length = 4 then some b else none

def dedup (l : List Bytes) : List Bytes := l.foldl (fun acc x => if acc.contains x then acc else acc ++ [x]) []

/-- the preset selected by `-o` (absent: the default options; `max` = 7 = level 6) -/
def presetOf (f : Flags) : CliOptions :=
  match f.opt with
  | none => defaultOptions
  | some l => fromPreset (if l ≥ 7 then 6 else l)

/-- `parse_opts_into_struct`, first part: everything up to and including `-i` (cannot fail).
    The sequential assignments of the Rust function, written field by field. -/
def baseOptions (f : Flags) : CliOptions :=
  let p := presetOf f
  { fixErrors := f.fix,
    force := f.force,
    filter := match f.filters with | some fs => fs | none => p.filter,
    interlace := match f.interlace with
      | some i => i
      | none => if f.nx then none else p.interlace,
    optimizeAlpha := f.alpha,
    bitDepth := !f.nb && !f.nx,
    colorType := !f.nc && !f.nx,
    palette := !f.np && !f.nx,
    grayscale := !f.ng && !f.nx,
    idatRecoding := !f.nz,
    scale16 := f.scale16,
    strip := p.strip,
    deflate := p.deflate,
    fastEvaluation := f.fast || p.fastEvaluation,
    timeout := match f.timeout with | some t => some t | none => p.timeout }

/-- `--keep` -/
def keepPolicy (names : List String) : Option StripChunks :=
  match (names.filter (· ≠ "display")).mapM parseChunkName with
  | none => none
  | some ns =>
    let ns := dedup ns
    some (.keep (if names.contains "display" then dedup (ns ++ displayChunks) else ns))

/-- `--strip` -/
def stripPolicy (a : StripArg) : Option StripChunks :=
  match a with
  | .safe => some .safe
  | .all => some .all
  | .list names =>
    if names.any (fun x => x = "safe" ∨ x = "all") then none else
    match names.mapM parseChunkName with
    | none => none
    | some ns => if ns.any forbiddenStrip.contains then none else some (.strip (dedup ns))

/-- the strip policy the flags select; outer `none` = error -/
def policyOf (f : Flags) : Option StripChunks :=
  let afterKeep : Option StripChunks := match f.keep with
    | none => some .none
    | some names => keepPolicy names
  match afterKeep with
  | none => none
  | some p =>
    let afterStrip : Option StripChunks := match f.strip with
      | none => some p
      | some a => stripPolicy a
    afterStrip.map fun p => if f.stripSafe then .safe else p

/-- the compressor the flags select, given the preset's -/
def deflaterOf (f : Flags) (preset : Deflater) : Deflater :=
  let d := if f.zopfli then .zopfli f.zi else preset
  match d, f.zc with
  | .lib _, some z => .lib z
  | d, _ => d

/-- `parse_opts_into_struct` (the `Options` part); `none` = the error return -/
def cliToOptions (f : Flags) : Option CliOptions :=
  (policyOf f).map fun p =>
    { baseOptions f with strip := p, deflate := deflaterOf f (baseOptions f).deflate }

/-! ## the manual -/

/-- MANUAL.txt, `-o`: level ↦ (zc, filters, fast) -/
def manualPreset (level : Nat) : Nat × List Nat × Bool :=
  match level with
  | 0 => (5, [], true)
  | 1 => (10, [], true)
  | 2 => (11, [0, 1, 6, 7], true)
  | 3 => (11, [0, 7, 8, 9], false)
  | 4 => (12, [0, 7, 8, 9], false)
  | 5 => (12, [0, 1, 2, 5, 6, 7, 8, 9], false)
  | _ => (12, [0, 1, 2, 3, 4, 5, 6, 7, 8, 9], false)

def sameSet (a b : List Nat) : Bool := a.all b.contains && b.all a.contains

/-! ## exit status and file collection -/

inductive RunResult
  | ok | failed | skipped
  deriving DecidableEq, Repr

def RunResult.rank : RunResult → Nat
  | .ok => 0 | .failed => 1 | .skipped => 2

/-- `.min().unwrap_or(Skipped)` then the match in `main` -/
def exitStatus (rs : List RunResult) : Nat :=
  let m := rs.foldl (fun acc r => if r.rank < acc.rank then r else acc) .skipped
  match m with
  | .ok => 0 | .failed => 1 | .skipped => 3

/-- a file-system entry as `collect_files` sees it -/
inductive Entry
  | file (name : String)
  | dir (name : String) (children : List Entry)

/-- `Path::extension` lowercased is `png` or `apng` (a leading dot alone does not make an extension) -/
def hasPngExt (name : String) : Bool :=
  match (name.splitOn ".").reverse with
  | ext :: stemLast :: more =>
    let stemNonEmpty := !(more.isEmpty && stemLast.isEmpty)
    stemNonEmpty && (ext.toLower == "png" || ext.toLower == "apng")
  | _ => false

/-- `collect_files`: names of the files that will be optimised -/
def collectFiles (recursive topLevel : Bool) : List Entry → List String
  | [] => []
  | .file n :: rest =>
    (if topLevel || hasPngExt n then [n] else []) ++ collectFiles recursive topLevel rest
  | .dir _ children :: rest =>
    (if recursive then collectFiles recursive false children else []) ++ collectFiles recursive topLevel rest

/-! ## Where the result goes (main.rs `out_file`, and the per-file step of `collect_files`) -/

inductive OutFile
  | none                                         -- nowhere (`--pretend`)
  | stdout
  | path (p : Option String) (preserve : Bool)   -- `p = none`: the input file itself
  deriving DecidableEq, Repr

structure DestFlags where
  pretend : Bool := false
  stdout : Bool := false
  out : Option String := none
  dir : Option String := none
  preserve : Bool := false
  deriving Repr

/-- `out_file` as computed once in `parse_opts_into_struct` -/
def baseOut (d : DestFlags) : OutFile :=
  if d.pretend then .none else if d.stdout then .stdout else .path d.out d.preserve

/-- the destination of one collected input whose last path component is `name` -/
def fileOut (d : DestFlags) (name : String) : OutFile :=
  match d.dir, baseOut d with
  | some dir, .path _ pr => .path (some (dir ++ "/" ++ name)) pr
  | _, o => o

end OxiModel

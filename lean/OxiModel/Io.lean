import OxiModel.Decision
/-
  The I/O automaton of the executable for one input file (/repo/src/main.rs, lib.rs `optimize`,
  png/mod.rs `read_file`): which system calls touch the input, the destination and standard output,
  in which order, and what a failure of each of them leads to. The kernel is a parameter (K1).
-/
namespace OxiModel

inductive Route
  | inPlace | out | dir | stdout | pretend
  deriving DecidableEq, Repr

inductive InputKind
  | improvable      -- the optimised result is strictly smaller
  | notImprovable   -- it is not (the input is kept)
  | invalid         -- not a decodable PNG
  deriving DecidableEq, Repr

structure IoCfg where
  route : Route
  preserve : Bool
  input : InputKind
  force : Bool := false
  /-- `--dir` is given as well although the route is decided by `--pretend` (the directory is still
      created by the option parser; C12 allows exactly that) -/
  alsoDir : Bool := false
  deriving DecidableEq, Repr

inductive Call
  | outDirExists   -- `path.exists()` on the --dir directory
  | mkdirOut       -- create the --dir directory
  | dirStat        -- `input.is_dir()` in collect_files
  | statIn         -- metadata of the input (only with --preserve and a file destination)
  | openIn         -- open the input read-only
  | readIn         -- read it (one or more read calls)
  | closeIn
  | createDest     -- open the destination with O_WRONLY|O_CREAT|O_TRUNC
  | chmodDest
  | writeDest      -- one or more write calls
  | closeDest
  | utimeDest
  | writeStdout
  deriving DecidableEq, Repr

/-- calls that create, truncate or modify a file (creating the --dir directory is allowed early) -/
def Call.mutating : Call → Bool
  | .createDest | .chmodDest | .writeDest | .utimeDest => true
  | _ => false

/-- calls whose failure makes the run fail (the others' errors are ignored by the code) -/
def Call.fatal : Call → Bool
  | .mkdirOut | .statIn | .openIn | .readIn | .createDest | .chmodDest | .writeDest | .utimeDest | .writeStdout => true
  | .outDirExists | .dirStat | .closeIn | .closeDest => false

def preserveApplies (c : IoCfg) : Bool :=
  c.preserve && (c.route = .inPlace || c.route = .out || c.route = .dir)

/-- part before the result exists in memory -/
def readPhase (c : IoCfg) : List Call :=
  (if c.route = .dir ∨ c.alsoDir then [.outDirExists, .mkdirOut] else []) ++ [.dirStat] ++
  (if preserveApplies c then [.statIn] else []) ++ [.openIn, .readIn, .closeIn]

/-- is anything delivered? (`is_fully_optimized` + the early return for in-place runs) -/
def delivers (c : IoCfg) : Bool :=
  match c.input with
  | .invalid => false
  | .improvable => true
  | .notImprovable => c.force || c.route ≠ .inPlace

/-- part after the complete output has been computed -/
def writePhase (c : IoCfg) : List Call :=
  if !delivers c then [] else
  match c.route with
  | .pretend => []
  | .stdout => [.writeStdout]
  | _ => [.createDest] ++ (if preserveApplies c then [.chmodDest] else []) ++ [.writeDest, .closeDest] ++
         (if preserveApplies c then [.utimeDest] else [])

/-- the fault-free sequence of calls; the result is complete in memory after `readPhase` -/
def program (c : IoCfg) : List Call := readPhase c ++ writePhase c

inductive Fault
  | error      -- the call returns an error (EIO, ENOSPC, EACCES …)
  | kill       -- the process is killed at this call
  deriving DecidableEq, Repr

structure IoResult where
  succeeded : List Call      -- calls that were executed successfully
  exit : Option Nat          -- `none`: killed
  deriving DecidableEq, Repr

/-- exit status of a fault-free run of one file -/
def cleanExit (c : IoCfg) : Nat := if c.input = .invalid then 1 else 0

def runFrom (c : IoCfg) (fault : Option (Nat × Fault)) : Nat → List Call → List Call → IoResult
  | _, [], done => ⟨done.reverse, some (cleanExit c)⟩
  | i, call :: rest, done =>
    match fault with
    | some (k, f) =>
      if i = k then
        match f with
        | .kill => ⟨done.reverse, none⟩
        | .error => if call.fatal then ⟨done.reverse, some 1⟩ else runFrom c fault (i + 1) rest done
      else runFrom c fault (i + 1) rest (call :: done)
    | none => runFrom c fault (i + 1) rest (call :: done)

/-- run with an optional fault at the k-th call -/
def ioRun (c : IoCfg) (fault : Option (Nat × Fault)) : IoResult := runFrom c fault 0 (program c) []

end OxiModel

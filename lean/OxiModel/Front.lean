import OxiModel.Chunks
import OxiModel.ScanLines
import OxiModel.FilterImage
/-
  The front end with every slice index, `unwrap` and size computation made explicit (C05):
  an out-of-range index is the outcome `ParseErr.panic`. The theorems of Props/C05 show that this
  outcome is unreachable, for every byte string.
-/
namespace OxiModel

/-- `&b[lo..hi]`: panics unless `lo ≤ hi ≤ len` -/
def sliceP (b : Bytes) (lo hi : Nat) : Except ParseErr Bytes :=
  if lo ≤ hi ∧ hi ≤ b.length then .ok ((b.drop lo).take (hi - lo)) else .error .panic

/-- `b[i]` -/
def indexP (b : Bytes) (i : Nat) : Except ParseErr UInt8 :=
  match b[i]? with
  | some x => .ok x
  | none => .error .panic

/-- `parse_next_chunk` with the Rust code's own indexing -/
def parseNextChunkC (b : Bytes) (off : Nat) (fixErrors : Bool) : Except ParseErr (Option (Chunk × Nat)) :=
  -- `byte_data.get(off..off + 4).ok_or(TruncatedData)?`
  if ¬ (off + 4 ≤ b.length) then .error .truncated else
  let length := readBE ((b.drop off).take 4)
  if b.length < off + 12 + length then .error .truncated else
  let off1 := off + 4
  match sliceP b off1 (off1 + 4) with
  | .error e => .error e
  | .ok name =>
    if name = nm "IEND" then .ok none else
    let off2 := off1 + 4
    match sliceP b off2 (off2 + length) with
    | .error e => .error e
    | .ok data =>
      let off3 := off2 + length
      match sliceP b off3 (off3 + 4) with
      | .error e => .error e
      | .ok crcBytes =>
        match sliceP b off1 (off1 + 4 + length) with
        | .error e => .error e
        | .ok chunkBytes =>
          if !fixErrors ∧ Spec.crc32 chunkBytes ≠ readBE crcBytes then .error .crcMismatch else
          .ok (some (⟨name, data⟩, off3 + 4))

/-- `Frame::from_fctl_data` with explicit indexing (after the length check, as in the code) -/
def frameOfFctlC (d : Bytes) : Except ParseErr Frame :=
  if d.length < 26 then .error .truncated else
  match sliceP d 4 8, sliceP d 8 12, sliceP d 12 16, sliceP d 16 20, sliceP d 20 22, sliceP d 22 24,
        indexP d 24, indexP d 25 with
  | .ok w, .ok h, .ok x, .ok y, .ok dn, .ok dd, .ok dis, .ok bl =>
    if readBE w = 0 ∨ readBE h = 0 then .error .invalidData else
    .ok ⟨readBE w, readBE h, readBE x, readBE y, readBE dn, readBE dd, dis, bl, []⟩
  | _, _, _, _, _, _, _, _ => .error .panic

/-- the fcTL / fdAT arm of `from_slice` with explicit indexing -/
def seqNumberC (c : Chunk) : Except ParseErr Nat :=
  if c.data.length < 4 then .error .truncated else
  match sliceP c.data 0 4 with
  | .ok s => .ok (readBE s)
  | .error e => .error e

/-- `parse_ihdr_chunk` field access: `(width, height, depth, colour type code, interlace)` -/
def ihdrFieldsC (d : Bytes) : Except ParseErr (Nat × Nat × UInt8 × UInt8 × UInt8) :=
  match d[12]? with
  | none => .error .truncated
  | some il =>
    match indexP d 9, indexP d 8, sliceP d 0 4, sliceP d 4 8 with
    | .ok ct, .ok depth, .ok w, .ok h => .ok (readBE w, readBE h, depth, ct, il)
    | _, _, _, _ => .error .panic

/-- colour key of a tRNS chunk as `parse_ihdr_chunk` reads it -/
def grayKeyC (t : Bytes) : Except ParseErr (Option Nat) :=
  if t.length ≥ 2 then (match sliceP t 0 2 with | .ok k => .ok (some (readBE k)) | .error e => .error e)
  else .ok none

def rgbKeyC (t : Bytes) : Except ParseErr (Option (Nat × Nat × Nat)) :=
  if t.length ≥ 6 then
    match sliceP t 0 2, sliceP t 2 4, sliceP t 4 6 with
    | .ok r, .ok g, .ok b => .ok (some (readBE r, readBE g, readBE b))
    | _, _, _ => .error .panic
  else .ok none

/-- `palette_to_rgba`: `chunks_exact(3)` then `zip` with the tRNS bytes (both total) -/
def paletteToRgba (plte : Bytes) (trns : Option Bytes) : List Rgba :=
  let entries := (chunksExact 3 plte).map fun c => (⟨c.getD 0 0, c.getD 1 0, c.getD 2 0, 255⟩ : Rgba)
  match trns with
  | none => entries
  | some t => entries.zipIdx.map fun (e, k) => match t[k]? with | some a => { e with a := a } | none => e

/-- header validation after the `fix:` commits -/
def parseIhdrC (d : Bytes) (plte trns : Option Bytes) : Except ParseErr Ihdr :=
  match ihdrFieldsC d with
  | .error e => .error e
  | .ok (w, h, depth, ctCode, il) =>
    let ctE : Except ParseErr ColorType :=
      match ctCode.toNat with
      | 0 => (match trns with
              | some t => (match grayKeyC t with | .ok k => .ok (.gray k) | .error e => .error e)
              | none => .ok (.gray none))
      | 2 => (match trns with
              | some t => (match rgbKeyC t with | .ok k => .ok (.rgb k) | .error e => .error e)
              | none => .ok (.rgb none))
      | 3 => .ok (.indexed (match plte with | some p => paletteToRgba p trns | none => []))
      | 4 => .ok .grayAlpha
      | 6 => .ok .rgba
      | _ => .error .badHeader
    match ctE with
    | .error e => .error e
    | .ok ct =>
      let dn := depth.toNat
      if ¬ (dn = 1 ∨ dn = 2 ∨ dn = 4 ∨ dn = 8 ∨ dn = 16) then .error .badHeader else
      if il.toNat > 1 then .error .badHeader else
      if w = 0 ∨ h = 0 then .error .badHeader else
      if !depthLegal ct dn then .error .badHeader else
      .ok ⟨w, h, ct, dn, il.toNat = 1⟩

/-- the size guard of `PngImage::new` (after the `fix:` commit): pixel data the header implies,
    at least, versus what the compressed bytes can inflate to -/
def sizeGuard (h : Ihdr) (compressedLen : Nat) : Bool :=
  decide (h.width * h.height * h.bpp / 8 ≤ compressedLen * 1032)

/-- does a product / sum of the size computation fit a 64-bit `usize`? -/
def fits64 (n : Nat) : Bool := decide (n < 2 ^ 64)

end OxiModel

namespace OxiModel

/-- result of `PngData::from_slice` -/
structure Parsed where
  img : Img
  idat : Bytes
  aux : List Chunk
  frames : List Frame
  deriving Repr

/-- `PngData::from_slice`. The inflater is a parameter (contract D1): `inflated` is what the zlib
    stream in the IDAT chunks inflates to, `none` if it is not a valid stream. -/
def fromSlice (strip : StripChunks) (fixErrors : Bool) (b : Bytes) (inflated : Option Bytes) :
    Except ParseErr Parsed :=
  match collect strip fixErrors b with
  | .error e => .error e
  | .ok st =>
    match parseIhdrC (st.ihdr.getD []) st.plte st.trns with
    | .error e => .error e
    | .ok hd =>
      if !sizeGuard hd st.idat.length then .error .truncated else
      match inflated with
      | none => .error .invalidData
      | some raw =>
        let expected := rawDataSize hd.width hd.height hd.bpp hd.interlaced
        if raw.length > expected then .error .invalidData      -- "inflated data too long"
        else if raw.length ≠ expected then .error .truncated
        else
          match unfilterImage ⟨hd, raw⟩ with
          | none => .error .panic
          | some none => .error .invalidData
          | some (some data) => .ok ⟨⟨hd, data⟩, st.idat, st.aux, st.frames⟩

end OxiModel

import OxiModel.Basic
import OxiModel.Filters
import OxiModel.FiltersProofs
import OxiModel.Props.C19
